package main

import (
	"encoding/hex"
	"fmt"
	"os"
	"regexp"
	"sort"
	"strings"

	"github.com/ajitpratap0/GoSQLX/pkg/gosqlx"
	"github.com/ajitpratap0/GoSQLX/pkg/sql/ast"
	"github.com/ajitpratap0/GoSQLX/pkg/sql/keywords"
	"github.com/ajitpratap0/GoSQLX/pkg/sql/parser"
)

func init() { props["C15"] = runC15 }

// c15rec: what the generator wrote, and where (position label of the first placement).
type c15rec struct {
	tables  map[string]string // name as written, qualifiers included -> position
	cols    map[string]string // column name -> position
	qcols   map[string]string // "qualifier/name" -> position
	funcs   map[string]string
	aliases map[string]bool
	strs    map[string]bool
}

func newC15rec() *c15rec {
	return &c15rec{map[string]string{}, map[string]string{}, map[string]string{}, map[string]string{}, map[string]bool{}, map[string]bool{}}
}

type c15gen struct {
	r   *Rng
	n   int
	rec *c15rec
	// names visible for qualification in the current SELECT (aliases or bare table names)
	scope []string
	// CTE names that may be used as tables
	ctes []string
	// base names already used in this statement (re-used now and then: same table under another schema, same
	// column under another qualifier, exact repeats - the results must keep them apart / merge them correctly)
	tbBases, clBases []string
	// when set, every name placed is recorded under this position (used for a whole sub-tree such as a frame bound)
	posOverride string
}

func (g *c15gen) put(m map[string]string, k, pos string) {
	if g.posOverride != "" {
		pos = g.posOverride
	}
	put(m, k, pos)
}

func (g *c15gen) fresh(prefix string) string { g.n++; return fmt.Sprintf("%s%d", prefix, g.n) }

func put(m map[string]string, k, pos string) {
	if _, ok := m[k]; !ok {
		m[k] = pos
	}
}

func (g *c15gen) col(pos string) string {
	var name string
	if len(g.clBases) > 0 && g.r.Intn(8) == 0 {
		name = g.clBases[g.r.Intn(len(g.clBases))]
	} else {
		name = g.fresh("cl")
		g.clBases = append(g.clBases, name)
	}
	g.put(g.rec.cols, name, pos)
	if len(g.scope) > 0 && g.r.Intn(3) == 0 {
		q := g.scope[g.r.Intn(len(g.scope))]
		g.put(g.rec.qcols, q+"/"+name, pos)
		return q + "." + name
	}
	g.put(g.rec.qcols, "/"+name, pos)
	return name
}

func (g *c15gen) str() string {
	s := g.fresh("st")
	g.rec.strs[s] = true
	return "'" + s + "'"
}

var c15Keywords = []string{"NULL", "TRUE", "FALSE"}

func (g *c15gen) scalar(pos string, depth int) string {
	k := g.r.Intn(16)
	if depth <= 0 && k >= 6 {
		k = g.r.Intn(6)
	}
	switch k {
	case 0, 1, 2:
		return g.col(pos)
	case 3:
		return fmt.Sprint(g.r.Intn(100))
	case 4:
		return g.str()
	case 5:
		return c15Keywords[g.r.Intn(len(c15Keywords))]
	case 6, 7:
		return g.call(pos, depth-1)
	case 8:
		return "(" + g.scalar(pos, depth-1) + " " + []string{"+", "-", "*", "/", "||"}[g.r.Intn(5)] + " " + g.scalar(pos, depth-1) + ")"
	case 9:
		return "CASE WHEN " + g.cond(pos+"/case", depth-1) + " THEN " + g.scalar(pos+"/case", depth-1) + " ELSE " + g.scalar(pos+"/case", depth-1) + " END"
	case 10:
		return "CAST(" + g.scalar(pos, depth-1) + " AS INT)"
	case 11:
		return "(" + g.subSelect(depth-1, true) + ")"
	case 12:
		return g.windowCall(pos, depth-1)
	case 13:
		if g.r.Intn(3) == 0 {
			return g.aggCall(pos, depth-1)
		}
		return g.call(pos, depth-1)
	case 14:
		return "CASE " + g.scalar(pos+"/case", depth-1) + " WHEN " + g.scalar(pos+"/case", depth-1) + " THEN " + g.scalar(pos+"/case", depth-1) + " END"
	default:
		return "(" + g.scalar(pos, depth-1) + ")"
	}
}

func (g *c15gen) call(pos string, depth int) string {
	name := g.fresh("fn")
	g.put(g.rec.funcs, name, pos)
	var args []string
	for i := g.r.Intn(3); i > 0; i-- {
		args = append(args, g.scalar(pos, depth))
	}
	return name + "(" + strings.Join(args, ", ") + ")"
}

// keys: one to three comma-separated expressions at a position, each optionally followed by one of the suffixes
func (g *c15gen) keys(pos string, depth int, suffixes []string) string {
	var ks []string
	for i := 1 + g.r.Intn(3); i > 0; i-- {
		k := g.scalar(pos, depth)
		if len(suffixes) > 0 {
			k += suffixes[g.r.Intn(len(suffixes))]
		}
		ks = append(ks, k)
	}
	return strings.Join(ks, ", ")
}

// aggCall: an aggregate with an ordering inside its parentheses or a WITHIN GROUP clause
func (g *c15gen) aggCall(pos string, depth int) string {
	name := g.fresh("fn")
	g.put(g.rec.funcs, name, pos)
	if g.r.Bool() {
		return name + "(" + g.scalar(pos, depth) + ", ',' ORDER BY " + g.keys(pos+"/agg-order", depth, []string{"", " DESC", " ASC"}) + ")"
	}
	return name + "(" + g.scalar(pos, depth) + ") WITHIN GROUP (ORDER BY " + g.keys(pos+"/within-group", depth, []string{"", " DESC"}) + ")"
}

func (g *c15gen) windowCall(pos string, depth int) string {
	name := g.fresh("fn")
	g.put(g.rec.funcs, name, pos)
	s := name + "(" + g.scalar(pos, depth) + ")"
	if g.r.Intn(4) == 0 {
		s += " FILTER (WHERE " + g.cond(pos+"/filter", depth) + ")"
	}
	s += " OVER ("
	var parts []string
	if g.r.Bool() {
		parts = append(parts, "PARTITION BY "+g.keys("window-partition", depth, nil))
	}
	if g.r.Bool() || len(parts) == 0 {
		o := "ORDER BY " + g.keys("window-order", depth, []string{"", " DESC", " ASC NULLS LAST"})
		if g.r.Intn(3) == 0 {
			switch g.r.Intn(3) {
			case 0:
				o += " ROWS BETWEEN UNBOUNDED PRECEDING AND CURRENT ROW"
			case 1:
				o += " ROWS BETWEEN 2 PRECEDING AND 3 FOLLOWING"
			default:
				savedPos := g.posOverride
				g.posOverride = "window-frame-bound"
				o += " ROWS BETWEEN (" + g.scalar("window-frame-bound", 1) + ") PRECEDING AND CURRENT ROW"
				g.posOverride = savedPos
			}
		}
		parts = append(parts, o)
	}
	return s + strings.Join(parts, " ") + ")"
}

func (g *c15gen) cond(pos string, depth int) string {
	k := g.r.Intn(12)
	if depth <= 0 && k >= 4 {
		k = g.r.Intn(4)
	}
	switch k {
	case 0, 1, 2:
		return g.scalar(pos, depth) + " " + []string{"=", "<>", "<", ">=", "LIKE"}[g.r.Intn(5)] + " " + g.scalar(pos, depth)
	case 3:
		return g.scalar(pos, depth) + " IS " + []string{"", "NOT "}[g.r.Intn(2)] + "NULL"
	case 4, 5:
		return "(" + g.cond(pos, depth-1) + " " + []string{"AND", "OR"}[g.r.Intn(2)] + " " + g.cond(pos, depth-1) + ")"
	case 6:
		return "NOT (" + g.cond(pos, depth-1) + ")"
	case 7:
		return g.scalar(pos, depth-1) + " IN (" + g.scalar(pos+"/in-list", depth-1) + ", " + g.scalar(pos+"/in-list", depth-1) + ")"
	case 8:
		return g.scalar(pos, depth-1) + " BETWEEN " + g.scalar(pos+"/between", depth-1) + " AND " + g.scalar(pos+"/between", depth-1)
	case 9:
		return []string{"", "NOT "}[g.r.Intn(2)] + "EXISTS (" + g.subSelect(depth-1, false) + ")"
	case 10:
		return g.scalar(pos, depth-1) + " IN (" + g.subSelect(depth-1, true) + ")"
	default:
		return g.scalar(pos, depth-1) + " = ANY (" + g.subSelect(depth-1, true) + ")"
	}
}

// tableRef writes one table reference and returns (sql, name usable as qualifier)
func (g *c15gen) tableRef(pos string, depth int, allowDerived bool) (string, string) {
	if allowDerived && depth > 0 && g.r.Intn(5) == 0 {
		al := g.fresh("al")
		g.rec.aliases[al] = true
		sub := g.subSelect(depth-1, false)
		return "(" + sub + ") AS " + al, al
	}
	var name string
	if len(g.ctes) > 0 && g.r.Intn(3) == 0 {
		name = g.ctes[g.r.Intn(len(g.ctes))]
	} else {
		if len(g.tbBases) > 0 && g.r.Intn(5) == 0 {
			name = g.tbBases[g.r.Intn(len(g.tbBases))]
		} else {
			name = g.fresh("tb")
			g.tbBases = append(g.tbBases, name)
		}
		switch g.r.Intn(6) {
		case 0:
			name = g.fresh("sc") + "." + name
		case 1:
			name = g.fresh("db") + "." + g.fresh("sc") + "." + name
		}
	}
	g.put(g.rec.tables, name, pos)
	if g.r.Intn(2) == 0 {
		al := g.fresh("al")
		g.rec.aliases[al] = true
		return name + []string{" ", " AS "}[g.r.Intn(2)] + al, al
	}
	if strings.Contains(name, ".") {
		return name, ""
	}
	return name, name
}

// subSelect: a nested SELECT with its own scope; single: exactly one output column
func (g *c15gen) subSelect(depth int, single bool) string {
	saved := g.scope
	g.scope = nil
	s := g.selectCore(depth, single)
	g.scope = saved
	return s
}

func (g *c15gen) selectCore(depth int, single bool) string {
	if depth < 0 {
		depth = 0
	}
	// FROM first (so that the scope is known), rendered later
	var from []string
	for i := 1 + g.r.Intn(2); i > 0; i-- {
		sql, q := g.tableRef("from", depth, true)
		from = append(from, sql)
		if q != "" {
			g.scope = append(g.scope, q)
		}
	}
	fromSQL := strings.Join(from, ", ")
	for i := g.r.Intn(3); i > 0; i-- {
		jt := []string{"JOIN", "INNER JOIN", "LEFT JOIN", "RIGHT JOIN", "FULL JOIN", "LEFT OUTER JOIN", "CROSS JOIN"}[g.r.Intn(7)]
		sql, q := g.tableRef("join", depth, false)
		if q != "" {
			g.scope = append(g.scope, q)
		}
		fromSQL += " " + jt + " " + sql
		if jt != "CROSS JOIN" {
			if g.r.Intn(5) == 0 {
				name := g.fresh("cl")
				g.put(g.rec.cols, name, "join-using")
				g.put(g.rec.qcols, "/"+name, "join-using")
				fromSQL += " USING (" + name + ")"
			} else {
				fromSQL += " ON " + g.cond("join-on", depth)
			}
		}
	}
	var cols []string
	nc := 1 + g.r.Intn(3)
	if single {
		nc = 1
	}
	for i := 0; i < nc; i++ {
		c := g.scalar("select-list", depth)
		if !single && g.r.Intn(4) == 0 {
			al := g.fresh("al")
			g.rec.aliases[al] = true
			c += " AS " + al
		}
		cols = append(cols, c)
	}
	if !single && g.r.Intn(8) == 0 {
		cols = append(cols, "*")
	}
	sql := "SELECT "
	if g.r.Intn(8) == 0 {
		sql += "DISTINCT "
	}
	sql += strings.Join(cols, ", ") + " FROM " + fromSQL
	if g.r.Intn(10) < 6 {
		sql += " WHERE " + g.cond("where", depth)
	}
	if g.r.Intn(4) == 0 {
		switch g.r.Intn(8) {
		case 0:
			sql += " GROUP BY ROLLUP(" + g.scalar("group-by", depth) + ")"
		case 1:
			sql += " GROUP BY ROLLUP(" + g.scalar("group-by", depth) + ", " + g.scalar("group-by", depth) + ", " + g.scalar("group-by", depth) + ")"
		case 2:
			sql += " GROUP BY CUBE(" + g.scalar("group-by", depth) + ", " + g.scalar("group-by", depth) + ")"
		case 3:
			// grouping sets of every width, each member a reference written nowhere else
			sql += " GROUP BY GROUPING SETS ((" + g.scalar("group-by", depth) + ", " + g.scalar("group-by", depth) + "), (" + g.scalar("group-by", depth) + "), (), (" +
				g.scalar("group-by", depth) + ", " + g.scalar("group-by", depth) + ", " + g.scalar("group-by", depth) + "))"
		case 4:
			sql += " GROUP BY " + g.scalar("group-by", depth) + ", ROLLUP(" + g.scalar("group-by", depth) + ", " + g.scalar("group-by", depth) + ")"
		default:
			sql += " GROUP BY " + g.keys("group-by", depth, nil)
		}
		if g.r.Bool() {
			sql += " HAVING " + g.cond("having", depth)
		}
	} else if g.r.Intn(12) == 0 {
		sql += " HAVING " + g.cond("having", depth) // HAVING without GROUP BY
	}
	if g.r.Intn(4) == 0 {
		sql += " ORDER BY " + g.keys("order-by", depth, []string{"", " DESC", " ASC NULLS LAST"})
	}
	if g.r.Intn(6) == 0 {
		sql += " LIMIT " + fmt.Sprint(1+g.r.Intn(20))
	}
	return sql
}

func (g *c15gen) query(depth int) string {
	saved := g.scope
	g.scope = nil
	defer func() { g.scope = saved }()
	s := g.selectCore(depth, false)
	for i := g.r.Intn(3); i > 0 && g.r.Intn(3) == 0; i-- {
		g.scope = nil
		s += " " + []string{"UNION", "UNION ALL", "INTERSECT", "EXCEPT"}[g.r.Intn(4)] + " " + g.selectCore(depth, false)
	}
	return s
}

func (g *c15gen) withClause(depth int) string {
	if g.r.Intn(4) != 0 {
		return ""
	}
	var parts []string
	for i := 1 + g.r.Intn(2); i > 0; i-- {
		name := g.fresh("ct")
		body := g.query(depth - 1)
		parts = append(parts, name+" AS ("+body+")")
		g.ctes = append(g.ctes, name)
	}
	return "WITH " + strings.Join(parts, ", ") + " "
}

func (g *c15gen) returning(depth int) string {
	if g.r.Intn(3) != 0 {
		return ""
	}
	return " RETURNING " + g.scalar("returning", depth)
}

func (g *c15gen) target(pos string) (string, string) {
	name := g.fresh("tb")
	if g.r.Intn(4) == 0 {
		name = g.fresh("sc") + "." + name
	}
	g.put(g.rec.tables, name, pos)
	return name, name
}

func (g *c15gen) Statement() (string, string) {
	g.rec = newC15rec()
	g.scope, g.ctes, g.tbBases, g.clBases = nil, nil, nil, nil
	depth := 1 + g.r.Intn(3)
	switch g.r.Intn(10) {
	case 0, 1, 2, 3:
		w := g.withClause(depth)
		return w + g.query(depth), "select"
	case 4:
		t, _ := g.target("insert-target")
		var cols, vals []string
		for i := 1 + g.r.Intn(3); i > 0; i-- {
			c := g.fresh("cl")
			g.put(g.rec.cols, c, "insert-columns")
			g.put(g.rec.qcols, "/"+c, "insert-columns")
			cols = append(cols, c)
			vals = append(vals, g.scalar("insert-values", depth-1))
		}
		sql := "INSERT INTO " + t + " (" + strings.Join(cols, ", ") + ") VALUES (" + strings.Join(vals, ", ") + ")"
		if g.r.Intn(4) == 0 {
			c := g.fresh("cl")
			g.put(g.rec.cols, c, "on-conflict-target")
			g.put(g.rec.qcols, "/"+c, "on-conflict-target")
			c2 := g.fresh("cl")
			g.put(g.rec.cols, c2, "on-conflict-set-target")
			g.put(g.rec.qcols, "/"+c2, "on-conflict-set-target")
			sql += " ON CONFLICT (" + c + ") DO UPDATE SET " + c2 + " = " + g.scalar("on-conflict-set-value", depth-1)
			if g.r.Bool() {
				sql += " WHERE " + g.cond("on-conflict-where", depth-1)
			}
		}
		return sql + g.returning(depth-1), "insert-values"
	case 5:
		w := g.withClause(depth)
		t, _ := g.target("insert-target")
		c := g.fresh("cl")
		g.put(g.rec.cols, c, "insert-columns")
		g.put(g.rec.qcols, "/"+c, "insert-columns")
		sql := w + "INSERT INTO " + t + " (" + c + ") " + g.subSelect(depth, true)
		// the clauses that may follow the source query
		switch g.r.Intn(4) {
		case 0:
			c1 := g.fresh("cl")
			g.put(g.rec.cols, c1, "on-conflict-target")
			g.put(g.rec.qcols, "/"+c1, "on-conflict-target")
			sql += " ON CONFLICT (" + c1 + ") DO NOTHING"
		case 1:
			c1 := g.fresh("cl")
			g.put(g.rec.cols, c1, "on-conflict-target")
			g.put(g.rec.qcols, "/"+c1, "on-conflict-target")
			c2 := g.fresh("cl")
			g.put(g.rec.cols, c2, "on-conflict-set-target")
			g.put(g.rec.qcols, "/"+c2, "on-conflict-set-target")
			sql += " ON CONFLICT (" + c1 + ") DO UPDATE SET " + c2 + " = " + g.scalar("on-conflict-set-value", depth-1)
		}
		if g.r.Bool() {
			sql += g.returning(depth - 1)
		}
		return sql, "insert-select"
	case 6, 7:
		t, _ := g.target("update-target")
		g.scope = nil
		var sets []string
		for i := 1 + g.r.Intn(2); i > 0; i-- {
			c := g.fresh("cl")
			g.put(g.rec.cols, c, "update-set-target")
			g.put(g.rec.qcols, "/"+c, "update-set-target")
			sets = append(sets, c+" = "+g.scalar("update-set-value", depth-1))
		}
		sql := "UPDATE " + t + " SET " + strings.Join(sets, ", ")
		if g.r.Intn(40) == 0 { // UPDATE ... FROM is not accepted by the parser today; kept at a low rate
			fsql, _ := g.tableRef("update-from", 0, false)
			sql += " FROM " + fsql
		}
		if g.r.Intn(4) != 0 {
			sql += " WHERE " + g.cond("update-where", depth)
		}
		return sql + g.returning(depth-1), "update"
	case 8:
		t, _ := g.target("delete-target")
		g.scope = nil
		sql := "DELETE FROM " + t
		if g.r.Intn(4) != 0 {
			sql += " WHERE " + g.cond("delete-where", depth)
		}
		return sql + g.returning(depth-1), "delete"
	default:
		t, _ := g.target("merge-target")
		al1 := g.fresh("al")
		g.rec.aliases[al1] = true
		s, _ := g.target("merge-source")
		al2 := g.fresh("al")
		g.rec.aliases[al2] = true
		g.scope = []string{al1, al2}
		sql := "MERGE INTO " + t + " " + al1 + " USING " + s + " " + al2 + " ON " + g.cond("merge-on", depth-1)
		c := g.fresh("cl")
		g.put(g.rec.cols, c, "merge-set-target")
		g.put(g.rec.qcols, "/"+c, "merge-set-target")
		sql += " WHEN MATCHED THEN UPDATE SET " + c + " = " + g.scalar("merge-set-value", depth-1)
		if g.r.Bool() {
			c2 := g.fresh("cl")
			g.put(g.rec.cols, c2, "merge-insert-columns")
			g.put(g.rec.qcols, "/"+c2, "merge-insert-columns")
			sql += " WHEN NOT MATCHED THEN INSERT (" + c2 + ") VALUES (" + g.scalar("merge-insert-values", depth-1) + ")"
		}
		return sql, "merge"
	}
}

var syntheticJoinName = regexp.MustCompile(`_with_\d+_joins`)

func hexSet(xs []string) string {
	ys := make([]string, len(xs))
	for i, x := range xs {
		parts := strings.Split(x, "\x00")
		for j, p := range parts {
			parts[j] = hex.EncodeToString([]byte(p))
		}
		ys[i] = strings.Join(parts, "/")
	}
	sort.Strings(ys)
	return strings.Join(ys, ",")
}

func dupFree(xs []string) bool {
	m := map[string]bool{}
	for _, x := range xs {
		if m[x] {
			return false
		}
		m[x] = true
	}
	return true
}

type c15out struct {
	t, c, f []string
	tq, cq  []string // parts joined by \x00
}

func c15Extract(tree *ast.AST) c15out {
	var o c15out
	o.t = gosqlx.ExtractTables(tree)
	o.c = gosqlx.ExtractColumns(tree)
	o.f = gosqlx.ExtractFunctions(tree)
	for _, q := range gosqlx.ExtractTablesQualified(tree) {
		o.tq = append(o.tq, q.Schema+"\x00"+q.Table+"\x00"+q.Name)
	}
	for _, q := range gosqlx.ExtractColumnsQualified(tree) {
		o.cq = append(o.cq, q.Table+"\x00"+q.Name)
	}
	return o
}

func (o c15out) canon() string {
	return "T=" + hexSet(o.t) + ";TQ=" + hexSet(o.tq) + ";C=" + hexSet(o.c) + ";CQ=" + hexSet(o.cq) + ";F=" + hexSet(o.f)
}

func runC15(c *runCtx) {
	res := c.res
	res.Rule = "model-grammar statements (SELECT with joins/derived tables/sub-queries/CTEs/set operations/windows/grouping, INSERT VALUES|SELECT with ON CONFLICT/RETURNING, UPDATE [FROM], DELETE, MERGE) built from fresh, unique table/schema/column/function/alias/string names whose positions the generator records; ExtractTables/Columns/Functions and the qualified variants must return exactly the recorded sets (missing name -> missed:<kind>:<position>, unexpected -> extra:<kind>:<alias|string|keyword|synthetic|other>), duplicate-free, equal to ExtractMetadata, and unchanged under re-layout (newlines, lower-case keywords); for every accepted statement (generated, repository corpus, built-in corpus) the Lean collectors (driver op extract, tables regenerated from extract.go) must return the same five sets for the dumped real tree (distinct = distinct statements)"
	drv := c.driver()
	corr := func(sql string, tree *ast.AST, o c15out) {
		if drv == nil {
			return
		}
		h := dumpNodeHex(tree)
		if len(h) > 400000 {
			return
		}
		ans, err := drv.Ask("extract", h)
		if err != nil {
			return
		}
		res.CorrCases++
		if want := o.canon(); ans != want {
			res.corrFail("extract-model", "Lean collectors differ from gosqlx.Extract* on the dumped tree", map[string]any{"sql": sql}, map[string]any{"model": ans, "real": want})
		}
	}
	g := &c15gen{r: c.rng.Fork()}
	n := c.n(1500, 60000)
	process := func(i int, sql, kind string, rec *c15rec) {
		tree, err := gosqlx.Parse(sql)
		if err != nil {
			res.stat("rejected:" + kind)
			if os.Getenv("VX_VERBOSE") != "" {
				fmt.Println("REJECTED", sql, "::", strings.SplitN(err.Error(), "\n", 2)[0])
			}
			return
		}
		res.count(sql, true)
		res.stat("accepted:" + kind)
		o := c15Extract(tree)
		wit := map[string]any{"sql": sql}
		if i < 3 {
			res.sample(map[string]any{"sql": sql, "tables": o.t, "columns": o.c, "functions": o.f})
		}
		// exactness
		cmp := func(kind string, got []string, want map[string]string) {
			gs := map[string]bool{}
			for _, x := range got {
				gs[x] = true
				if _, ok := want[x]; !ok {
					base := x
					if i := strings.LastIndex(x, "\x00"); i >= 0 {
						base = x[i+1:]
					}
					class := "other"
					switch {
					case rec.aliases[base]:
						class = "alias"
					case rec.strs[base]:
						class = "string"
					case syntheticJoinName.MatchString(x):
						class = "synthetic"
					case base == "NULL" || base == "TRUE" || base == "FALSE" || base == "EXCLUDED":
						class = "keyword"
					}
					res.fail("extra:"+kind+":"+class, "a name that was not written in such a position is reported", wit, map[string]any{"name": strings.ReplaceAll(x, "\x00", "/")})
				}
			}
			for x, pos := range want {
				if !gs[x] {
					p := pos
					if i := strings.Index(p, "/"); i >= 0 {
						p = p[:i]
					}
					res.fail("missed:"+kind+":"+p, "a name written in this position is not reported", wit, map[string]any{"name": strings.ReplaceAll(x, "\x00", "/"), "position": pos})
				}
			}
		}
		cmp("table", o.t, rec.tables)
		cmp("column", o.c, rec.cols)
		cmp("function", o.f, rec.funcs)
		wantTQ := map[string]string{}
		for t, pos := range rec.tables {
			parts := strings.Split(t, ".")
			switch len(parts) {
			case 1:
				wantTQ["\x00\x00"+parts[0]] = pos
			case 2:
				wantTQ[parts[0]+"\x00\x00"+parts[1]] = pos
			default:
				wantTQ[parts[0]+"\x00"+parts[1]+"\x00"+parts[2]] = pos
			}
		}
		cmp("table-qualified", o.tq, wantTQ)
		wantCQ := map[string]string{}
		for k, pos := range rec.qcols {
			wantCQ[strings.Replace(k, "/", "\x00", 1)] = pos
		}
		cmp("column-qualified", o.cq, wantCQ)
		for name, xs := range map[string][]string{"tables": o.t, "columns": o.c, "functions": o.f, "tables-qualified": o.tq, "columns-qualified": o.cq} {
			if !dupFree(xs) {
				res.fail("duplicates:"+name, "the result lists a name twice", wit, map[string]any{"got": xs})
			}
		}
		// ExtractMetadata agrees
		md := gosqlx.ExtractMetadata(tree)
		var mo c15out
		mo.t, mo.c, mo.f = md.Tables, md.Columns, md.Functions
		for _, q := range md.TablesQualified {
			mo.tq = append(mo.tq, q.Schema+"\x00"+q.Table+"\x00"+q.Name)
		}
		for _, q := range md.ColumnsQualified {
			mo.cq = append(mo.cq, q.Table+"\x00"+q.Name)
		}
		if mo.canon() != o.canon() {
			res.fail("metadata-differs", "ExtractMetadata differs from the individual extractors", wit, map[string]any{"metadata": mo.canon(), "individual": o.canon()})
		}
		corr(sql, tree, o)
		ast.ReleaseAST(tree)
		// layout independence
		if i%3 == 0 {
			for _, lay := range []string{strings.ReplaceAll(sql, " ", "\n\t"), lowerKeywords(sql)} {
				t2, err := gosqlx.Parse(lay)
				if err != nil {
					res.fail("layout-rejected", "a re-layout (whitespace / keyword case only) of an accepted statement is rejected, so nothing can be extracted from it", map[string]any{"sql": sql, "layout": lay}, map[string]any{"error": strings.SplitN(err.Error(), "\n", 2)[0]})
					if os.Getenv("VX_VERBOSE") != "" {
						fmt.Println("LAYOUT-REJECTED", strings.SplitN(err.Error(), "\n", 2)[0], "::", lay)
					}
					continue
				}
				if o2 := c15Extract(t2); o2.canon() != o.canon() {
					res.fail("layout-dependent", "the extracted sets change with layout / keyword case", map[string]any{"sql": sql, "layout": lay}, map[string]any{"a": o.canon(), "b": o2.canon()})
				}
				ast.ReleaseAST(t2)
			}
		}
	}
	for i := 0; i < n; i++ {
		sql, kind := g.Statement()
		process(i, sql, kind, g.rec)
	}
	// deep and wide trees: names at the far end of long operator chains, at the bottom of towers of derived tables,
	// scalar sub-queries, calls and CASEs, in wide lists and long set-operation chains ("at any depth")
	nd := 0
	for _, size := range c15DeepSizes(c.tier) {
		for fam := 0; fam < c15DeepFamilies; fam++ {
			sql, kind := g.deep(fam, size)
			process(3*nd+1, sql, kind, g.rec)
			nd++
		}
	}

	// correspondence on the corpora and on the general statement generator
	var extra []string
	extra = append(extra, builtinCorpus...)
	for _, f := range repoCorpus() {
		extra = append(extra, f)
	}
	sg := newSQLGen(c.rng.Fork())
	for i := 0; i < c.n(300, 10000); i++ {
		extra = append(extra, sg.Statement())
	}
	for _, sql := range extra {
		tree, err := gosqlx.Parse(sql)
		if err != nil {
			continue
		}
		res.count(sql, true)
		o := c15Extract(tree)
		for name, xs := range map[string][]string{"tables": o.t, "columns": o.c, "functions": o.f, "tables-qualified": o.tq, "columns-qualified": o.cq} {
			if !dupFree(xs) {
				res.fail("duplicates:"+name, "the result lists a name twice", map[string]any{"sql": sql}, map[string]any{"got": xs})
			}
		}
		corr(sql, tree, o)
		ast.ReleaseAST(tree)
	}
	// the names extracted are the names that were written when the text was parsed — also when the text was handed over
	// as a byte slice that the caller goes on to use (reads the next statement into it, clears it): the tree and what is
	// extracted from it do not follow the buffer
	{
		g2 := &c15gen{r: c.rng.Fork()}
		entries := []struct {
			name string
			f    func(b []byte) (*ast.AST, error)
		}{
			{"gosqlx.ParseBytes", func(b []byte) (*ast.AST, error) { return gosqlx.ParseBytes(b) }},
			{"parser.ParseBytes", func(b []byte) (*ast.AST, error) { return parser.ParseBytes(b) }},
			{"parser.ParseBytesWithDialect", func(b []byte) (*ast.AST, error) { return parser.ParseBytesWithDialect(b, keywords.DialectPostgreSQL) }},
			{"parser.ParseBytesWithTokens", func(b []byte) (*ast.AST, error) { t, _, err := parser.ParseBytesWithTokens(b); return t, err }},
		}
		for i := 0; i < c.n(120, 3000); i++ {
			sql, _ := g2.Statement()
			other, _ := g2.Statement()
			for _, e := range entries {
				buf := []byte(sql)
				tree, err := e.f(buf)
				if err != nil {
					continue
				}
				res.count("buffer|"+e.name+"|"+sql, true)
				before := c15Extract(tree).canon() + "|" + dumpNode(tree)
				// the caller reuses its buffer: the next statement, then blanks
				n := copy(buf, other)
				for k := n; k < len(buf); k++ {
					buf[k] = ' '
				}
				mid := c15Extract(tree).canon() + "|" + dumpNode(tree)
				for k := range buf {
					buf[k] = 'z'
				}
				after := c15Extract(tree).canon() + "|" + dumpNode(tree)
				if mid != before || after != before {
					res.fail("tree-follows-input-buffer:"+e.name, "after the caller reused the byte slice it had parsed, the tree (and what is extracted from it) shows the new contents of the buffer",
						map[string]any{"parsed": sql, "buffer_then_held": truncate(other, 200)}, map[string]any{"before": truncate(before, 300), "after_reuse": truncate(mid, 300)})
				}
				ast.ReleaseAST(tree)
			}
		}
	}
}

// lowerKeywords lower-cases everything outside single quotes (generated names are lower-case already)
func lowerKeywords(sql string) string {
	var b strings.Builder
	in := false
	for _, r := range sql {
		if r == '\'' {
			in = !in
		}
		if !in && r >= 'A' && r <= 'Z' {
			r += 'a' - 'A'
		}
		b.WriteRune(r)
	}
	return b.String()
}

const c15DeepFamilies = 11

func c15DeepSizes(tier string) []int {
	if tier == "thorough" {
		return []int{8, 30, 49, 52, 60, 80, 97, 99, 101, 120, 250, 600, 1500}
	}
	return []int{30, 52, 99, 120, 400}
}

// deep builds a statement of one deep / wide family with `size` levels or operands; every name is fresh and recorded.
func (g *c15gen) deep(fam, size int) (string, string) {
	g.rec = newC15rec()
	g.scope, g.ctes, g.tbBases, g.clBases = nil, nil, nil, nil
	g.n += 100000
	tb := func(pos string) string {
		t := g.fresh("tb")
		g.put(g.rec.tables, t, pos)
		return t
	}
	cl := func(pos string) string {
		c := g.fresh("cl")
		g.put(g.rec.cols, c, pos)
		g.put(g.rec.qcols, "/"+c, pos)
		return c
	}
	fn := func(pos string) string {
		f := g.fresh("fn")
		g.put(g.rec.funcs, f, pos)
		return f
	}
	switch fam {
	case 0: // AND / OR chain in WHERE, operands partly wrapped in calls
		var ops []string
		for i := 0; i < size; i++ {
			x := cl("deep-where-chain")
			if i%7 == 0 {
				x = fn("deep-where-chain") + "(" + x + ")"
			}
			ops = append(ops, x+" = "+fmt.Sprint(i))
		}
		sep := " AND "
		if size%2 == 1 {
			sep = " OR "
		}
		return "SELECT " + cl("select-list") + " FROM " + tb("from") + " WHERE " + strings.Join(ops, sep), "deep-where-chain"
	case 1: // concatenation chain in the select list
		var ops []string
		for i := 0; i < size; i++ {
			ops = append(ops, fn("deep-select-chain")+"("+cl("deep-select-chain")+")")
		}
		return "SELECT " + strings.Join(ops, " || ") + " FROM " + tb("from"), "deep-select-chain"
	case 2: // arithmetic chain in JOIN ON, HAVING and ORDER BY
		chain := func(pos string) string {
			var ops []string
			for i := 0; i < size; i++ {
				ops = append(ops, cl(pos))
			}
			return strings.Join(ops, " + ")
		}
		return "SELECT " + cl("select-list") + " FROM " + tb("from") + " JOIN " + tb("join") + " ON " + chain("deep-join-on-chain") + " = 1 GROUP BY " + cl("group-by") +
			" HAVING " + chain("deep-having-chain") + " > 1 ORDER BY " + chain("deep-order-by-chain"), "deep-clause-chains"
	case 3: // tower of derived tables
		inner := "SELECT " + cl("deep-derived-tower") + " FROM " + tb("deep-derived-tower")
		for i := 0; i < size; i++ {
			al := g.fresh("al")
			g.rec.aliases[al] = true
			inner = "SELECT " + cl("deep-derived-tower") + " FROM (" + inner + ") " + al
		}
		return inner, "deep-derived-tower"
	case 4: // tower of scalar sub-queries in WHERE
		inner := "SELECT " + cl("deep-subquery-tower") + " FROM " + tb("deep-subquery-tower")
		for i := 0; i < size; i++ {
			inner = "SELECT " + cl("deep-subquery-tower") + " FROM " + tb("deep-subquery-tower") + " WHERE " + cl("deep-subquery-tower") + " = (" + inner + ")"
		}
		return inner, "deep-subquery-tower"
	case 5: // nested calls
		x := cl("deep-call-tower")
		for i := 0; i < size; i++ {
			x = fn("deep-call-tower") + "(" + x + ")"
		}
		return "SELECT " + x + " FROM " + tb("from"), "deep-call-tower"
	case 6: // wide IN list and wide select list
		var items, sel []string
		for i := 0; i < size; i++ {
			items = append(items, cl("wide-in-list"))
			sel = append(sel, cl("wide-select-list"))
		}
		return "SELECT " + strings.Join(sel, ", ") + " FROM " + tb("from") + " WHERE " + cl("where") + " IN (" + strings.Join(items, ", ") + ")", "wide-lists"
	case 7: // long UNION chain
		var arms []string
		for i := 0; i < size; i++ {
			arms = append(arms, "SELECT "+cl("deep-union-chain")+" FROM "+tb("deep-union-chain"))
		}
		return strings.Join(arms, " UNION ALL "), "deep-union-chain"
	case 8: // nested CASE
		x := cl("deep-case-tower")
		for i := 0; i < size; i++ {
			x = "CASE WHEN " + cl("deep-case-tower") + " = 1 THEN " + x + " ELSE " + cl("deep-case-tower") + " END"
		}
		return "SELECT " + x + " FROM " + tb("from"), "deep-case-tower"
	case 9: // many joins, each with its own ON columns
		sql := "SELECT " + cl("select-list") + " FROM " + tb("from")
		n := size
		if n > 60 {
			n = 60
		}
		for i := 0; i < n; i++ {
			sql += " JOIN " + tb("deep-join-chain") + " ON " + cl("deep-join-chain") + " = " + cl("deep-join-chain")
		}
		return sql, "deep-join-chain"
	default: // nested parentheses around a comparison deep inside NOTs
		x := cl("deep-paren-tower") + " = " + fn("deep-paren-tower") + "(" + cl("deep-paren-tower") + ")"
		for i := 0; i < size; i++ {
			if i%2 == 0 {
				x = "(" + x + ")"
			} else {
				x = "NOT " + x
			}
		}
		return "SELECT " + cl("select-list") + " FROM " + tb("from") + " WHERE " + x, "deep-paren-tower"
	}
}
