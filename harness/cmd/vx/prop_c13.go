package main

import (
	"context"
	"errors"
	"fmt"
	"runtime"
	"strings"
	"sync"
	"time"

	goerrors "github.com/ajitpratap0/GoSQLX/pkg/errors"
	"github.com/ajitpratap0/GoSQLX/pkg/gosqlx"
	"github.com/ajitpratap0/GoSQLX/pkg/sql/parser"
	"github.com/ajitpratap0/GoSQLX/pkg/sql/tokenizer"
)

func init() { props["C13"] = runC13 }

var documentedCodes = map[string]bool{}

func init() {
	for _, c := range []string{"E1001", "E1002", "E1003", "E1004", "E1005", "E1006", "E1007", "E1008",
		"E2001", "E2002", "E2003", "E2004", "E2005", "E2006", "E2007", "E2008", "E2009", "E2010", "E2011", "E2012",
		"E3001", "E3002", "E3003", "E3004", "E4001", "E4002"} {
		documentedCodes[c] = true
	}
}

// corrupt returns single-token corruptions of a statement (token deleted, duplicated, replaced, truncated)
func corruptions(r *Rng, sql string, n int) []string {
	words := strings.Fields(sql)
	var out []string
	if len(words) < 2 {
		return out
	}
	repl := []string{")", "(", ",", "SELECT", "FROM", "WHERE", "'", "\"", "1", "=", "AND", ";", "'a\\q'", "1.", "1e", "$$x", "\\", "@", "#", "99999999999999999999", "`", "ORDER", "LIMIT 99999999999999999999"}
	for i := 0; i < n; i++ {
		w := append([]string{}, words...)
		j := r.Intn(len(w))
		switch r.Intn(4) {
		case 0:
			w = append(w[:j], w[j+1:]...)
		case 1:
			w = append(w[:j+1], w[j:]...)
		case 2:
			w[j] = r.Pick(repl)
		case 3:
			w = w[:j]
			if r.Bool() {
				w = append(w, r.Pick(repl))
			}
		}
		out = append(out, strings.Join(w, " "))
	}
	return out
}

var lexicalGarbage = []string{
	"SELECT 'unterminated", "SELECT \"unterminated", "SELECT `unterminated", "SELECT 'a\\q'", "SELECT 'a\\", "SELECT 1.", "SELECT 1e", "SELECT 1e+",
	"SELECT $$unterminated", "SELECT $t$ x", "SELECT # FROM t", "SELECT a ^^ b \\", "\x00", "\xff\xfe", "SELECT \xc3\x28", "SELECT '''", "SELECT ''''",
	"SELECT a FROM t WHERE a = 'x\ny", "SELECT 'ab\ncd', $$oops", "SELECT \"id\nx", "'", "\"", "`", "\\", "SELECT 'a' 'b\\z'", "SELECT a /* open",
	"SELECT a FROM t LIMIT 99999999999999999999", "SELECT a FROM t LIMIT 5 OFFSET 99999999999999999999", "SELECT a FROM t LIMIT 99999999999999999999, 1",
	"SELECT", ";", ";;", "SELECT FROM", ")", "(", "SELECT (", "SELECT a FROM", "INSERT", "UPDATE t SET", "DELETE", "CREATE", "CREATE TABLE", "ALTER TABLE t",
	"WITH", "WITH c AS", "MERGE INTO", "SELECT a FROM t WHERE a IN (", "SELECT CASE", "SELECT CAST(a AS", "SELECT a FROM t GROUP BY", "SELECT a FROM t ORDER BY",
	"DROP", "TRUNCATE", "SELECT * FROM t JOIN", "SELECT a b c d", "SELECT a FROM t t2 t3", "VALUES", "EXPLAIN", "SELECT a FROM t WHERE a NOT", "SELECT a FROM t WHERE a IS",
}

func checkStructured(res *Result, entry, input string, err error, lexical bool) {
	wit := map[string]any{"entry": entry, "input": input}
	var se *goerrors.Error
	if !errors.As(err, &se) {
		res.fail("unstructured-error:"+entry, "the returned error exposes no *errors.Error under errors.As", wit, err.Error())
		return
	}
	code := string(se.Code)
	res.stat("code:" + code)
	if !documentedCodes[code] {
		res.fail("undocumented-code:"+code, "error code is not a documented one", wit, err.Error())
	}
	if strings.TrimSpace(se.Message) == "" {
		res.fail("empty-message:"+code, "structured error has an empty message", wit, nil)
	}
	if lexical && !strings.HasPrefix(code, "E1") {
		res.fail("wrong-family:lexical:"+code, "a lexical problem (the tokenizer alone rejects the input) is reported with a non-tokenizer code", wit, err.Error())
	}
	if !lexical && !strings.HasPrefix(code, "E2") {
		res.fail("wrong-family:grammar:"+code, "a grammar problem (the tokenizer accepts the input) is reported with a non-parser code", wit, err.Error())
	}
	// location inside the input when set
	if se.Location.Line != 0 || se.Location.Column != 0 {
		lines := strings.Split(input, "\n")
		ln, col := se.Location.Line, se.Location.Column
		ok := ln >= 1 && ln <= len(lines) && col >= 0
		if ok {
			// columns count a tab as 4; allow up to the expanded line length + 1 (position just past the end)
			w := 0
			for _, ch := range []byte(lines[ln-1]) {
				if ch == '\t' {
					w += 4
				} else {
					w++
				}
			}
			if col > w+1 {
				ok = false
			}
		}
		if !ok && !(ln == 1 && col == 0) {
			res.fail("location-outside-input:"+code, fmt.Sprintf("error location %d:%d lies outside the input", ln, col), wit, err.Error())
		}
	}
	// wrapped causes stay reachable
	for e := err; e != nil; e = errors.Unwrap(e) {
		if !errors.Is(err, e) {
			res.fail("cause-unreachable", "a wrapped cause is not reachable with errors.Is", wit, nil)
		}
	}
}

func runC13(c *runCtx) {
	res := c.res
	res.Rule = "rejected inputs = every single-token corruption (delete/duplicate/replace/truncate) of corpus and generated statements that is rejected + a lexical-garbage list + limit violations, through every failing entry point; each error is checked for errors.As, documented code, family by failing stage (tokenizer alone rejects => E1xxx, else E2xxx), non-empty message, location inside the input, errors.Is to every wrapped cause, and equality of (code,message,location) across two calls and across fresh/pooled instances (distinct = distinct rejected (entry,input))"
	var inputs []string
	inputs = append(inputs, lexicalGarbage...)
	g := newSQLGen(c.rng.Fork())
	base := append([]string{}, builtinCorpus...)
	for i := 0; i < c.n(150, 3000); i++ {
		base = append(base, g.Statement())
	}
	for _, b := range base {
		inputs = append(inputs, corruptions(c.rng, b, c.n(6, 12))...)
	}
	entries := map[string]func(string) error{
		"gosqlx.Parse":         func(s string) error { _, err := gosqlx.Parse(s); return err },
		"gosqlx.ParseBytes":    func(s string) error { _, err := gosqlx.ParseBytes([]byte(s)); return err },
		"gosqlx.Validate":      func(s string) error { return gosqlx.Validate(s) },
		"gosqlx.ParseMultiple": func(s string) error { _, err := gosqlx.ParseMultiple([]string{"SELECT 1", s}); return err },
		"gosqlx.ValidateMultiple": func(s string) error {
			return gosqlx.ValidateMultiple([]string{"SELECT 1", s})
		},
		"gosqlx.ParseWithRecovery": func(s string) error {
			_, errs := gosqlx.ParseWithRecovery(s)
			if len(errs) > 0 {
				return errs[0]
			}
			return nil
		},
		"parser.Validate":         func(s string) error { return parser.Validate(s) },
		"parser.ParseBytes":       func(s string) error { _, err := parser.ParseBytes([]byte(s)); return err },
		"gosqlx.ParseWithContext": func(s string) error { _, err := gosqlx.ParseWithContext(context.Background(), s); return err },
		"gosqlx.ParseWithTimeout": func(s string) error { _, err := gosqlx.ParseWithTimeout(s, time.Hour); return err },
		"lowlevel.context": func(s string) error {
			t := tokenizer.GetTokenizer()
			defer tokenizer.PutTokenizer(t)
			toks, err := t.TokenizeContext(context.Background(), []byte(s))
			if err != nil {
				return err
			}
			p := parser.GetParser()
			defer parser.PutParser(p)
			_, err = p.ParseContextFromModelTokens(context.Background(), toks)
			return err
		},
		"lowlevel.positions": func(s string) error {
			t := tokenizer.GetTokenizer()
			defer tokenizer.PutTokenizer(t)
			toks, err := t.Tokenize([]byte(s))
			if err != nil {
				return err
			}
			p := parser.GetParser()
			defer parser.PutParser(p)
			_, err = p.ParseFromModelTokensWithPositions(toks)
			return err
		},
	}
	names := make([]string, 0, len(entries))
	for k := range entries {
		names = append(names, k)
	}
	names = sortedStrings(names)
	for i, in := range inputs {
		tk, _ := tokenizer.New()
		_, lexErr := tk.Tokenize([]byte(in))
		for _, name := range names {
			err := entries[name](in)
			if err == nil {
				res.stat("accepted")
				continue
			}
			res.count(name+"|"+in, true)
			if i < 2 && name == "gosqlx.Parse" {
				res.sample(map[string]any{"entry": name, "input": in, "error": truncate(err.Error(), 160)})
			}
			checkStructured(res, name, in, err, lexErr != nil)
			err2 := entries[name](in)
			if err2 == nil || err2.Error() != err.Error() {
				res.fail("not-reproducible:"+name, "the same input produced a different error on the second call", map[string]any{"entry": name, "input": in},
					map[string]any{"first": err.Error(), "second": fmt.Sprint(err2)})
			}
		}
	}
	// the same rejected input after different histories of the pooled instances: same code, message and location,
	// and a location inside the input (the input is indented so that a stale position would show)
	histories := []string{"SELECT 1", "\n\n'abc", "SELECT a,\n\tb\nFROM t\nWHERE 'x", "/* c\n\n*/ SELECT `"}
	for i, in := range inputs {
		if i%c.n(6, 2) != 0 {
			continue
		}
		for _, pad := range []string{strings.Repeat(" ", 8), strings.Repeat(" ", 90), "\n\n   "} {
			in2 := pad + in
			tk, _ := tokenizer.New()
			_, lexErr := tk.Tokenize([]byte(in2))
			for _, name := range names {
				var first string
				for hi, h := range histories {
					_ = entries[name](h)
					err := entries[name](in2)
					if err == nil {
						break
					}
					if hi == 0 {
						first = err.Error()
						res.count("history|"+name+"|"+in2, true)
					} else if err.Error() != first {
						res.fail("history-dependent-error:"+name, "the same rejected input gives a different error after a different earlier call", map[string]any{"entry": name, "input": in2, "earlier": h},
							map[string]any{"after_plain_history": first, "after_this_history": err.Error()})
					}
					checkStructured(res, name, in2, err, lexErr != nil)
				}
			}
		}
	}
	// a context that turns done at the k-th poll: the context's error stays reachable however deep the construct that
	// was being parsed re-wraps its operand's error
	nesting := append([]string{
		"SELECT a FROM t WHERE a IN (1, 2, (SELECT 3), 4) AND b BETWEEN c + 1 AND (SELECT 9) AND EXISTS (SELECT 1 FROM u WHERE v IN (SELECT w FROM x))",
		"SELECT CASE WHEN a IN (1, 2) THEN (SELECT 1) WHEN b THEN f(g(1, 2), 3) ELSE CASE c WHEN 1 THEN 2 END END FROM t",
		"WITH c AS (SELECT a FROM t WHERE a IN (SELECT b FROM u)), d AS (SELECT 1 UNION SELECT 2) SELECT * FROM c UNION ALL SELECT * FROM d EXCEPT SELECT 3",
		"SELECT a FROM t JOIN u ON t.a = u.a AND u.b IN (SELECT 1) WHERE t.c LIKE 'x' OR NOT (t.d BETWEEN 1 AND 2) ORDER BY (SELECT 1) LIMIT 3",
		"INSERT INTO t (a, b) SELECT a, (SELECT MAX(b) FROM u) FROM v WHERE a NOT IN (SELECT 1)",
		"UPDATE t SET a = (SELECT 1), b = CASE WHEN c THEN 1 ELSE 2 END WHERE d IN (1, 2, 3)",
	}, builtinCorpus...)
	if len(nesting) > c.n(90, 100000) {
		nesting = nesting[:c.n(90, 100000)]
	}
	for _, sql := range nesting {
		ref := &pollCtx{Context: context.Background(), k: -1}
		if _, err := gosqlx.ParseWithContext(ref, sql); err != nil {
			continue
		}
		for k := 0; k < ref.n && k < 200; k++ {
			for _, cause := range []error{context.Canceled, context.DeadlineExceeded} {
				ctx := &pollCtx{Context: context.Background(), k: k, err: cause}
				_, err := gosqlx.ParseWithContext(ctx, sql)
				res.count(fmt.Sprintf("cancel|%s|%d|%v", sql, k, cause), true)
				if err != nil && ctx.fired && !errors.Is(err, cause) {
					res.fail("cause-unreachable:cancellation", "the context's error is not reachable with errors.Is from the error of a cancelled call",
						map[string]any{"sql": sql, "poll": k, "cause": cause.Error()}, err.Error())
				}
			}
		}
	}
	// the same input produces the same (code, message, location) whatever other parses run at the same time: rejected
	// multi-line statements of different layouts, parsed concurrently through the position-tracking entry points,
	// against their single-threaded baseline
	{
		mkBad := func(width, gap int) string {
			var b strings.Builder
			b.WriteString("SELECT")
			for i := 0; i < width; i++ {
				b.WriteString(strings.Repeat("\n", 1+(i%gap)) + strings.Repeat(" ", i%7) + "c" + fmt.Sprint(i) + ",")
			}
			b.WriteString("\n  FROM t WHERE (a = 1 AND\n\n b = ) ORDER BY")
			return b.String()
		}
		describe := func(err error) string {
			if err == nil {
				return "nil"
			}
			var ge *goerrors.Error
			if errors.As(err, &ge) {
				return fmt.Sprintf("%s|%s|%d:%d", ge.Code, ge.Message, ge.Location.Line, ge.Location.Column)
			}
			return "unstructured|" + err.Error()
		}
		entries := map[string]func(sql string) string{
			"gosqlx.Parse": func(sql string) string { _, err := gosqlx.Parse(sql); return describe(err) },
			"gosqlx.ParseWithRecovery": func(sql string) string {
				_, errs := gosqlx.ParseWithRecovery(sql)
				var ds []string
				for _, e := range errs {
					ds = append(ds, describe(e))
				}
				return strings.Join(ds, ";")
			},
			"gosqlx.Validate": func(sql string) string { return describe(gosqlx.Validate(sql)) },
			"Parser.ParseFromModelTokensWithPositions": func(sql string) string {
				toks := tokenizeFresh(sql)
				if toks == nil {
					return "lex"
				}
				p := parser.NewParser()
				_, err := p.ParseFromModelTokensWithPositions(toks)
				return describe(err)
			},
		}
		// few processors and many workers: goroutines share the per-processor caches of the pools and are preempted
		// in the middle of a parse
		defer runtime.GOMAXPROCS(runtime.GOMAXPROCS(2))
		width := c.n(6000, 12000)
		var texts []string
		for w := 0; w < 8; w++ {
			texts = append(texts, mkBad(width+w*13, 1+w%4))
		}
		for name, f := range entries {
			base := make([]string, len(texts))
			for i, t := range texts {
				base[i] = f(t)
			}
			var wg sync.WaitGroup
			var mu sync.Mutex
			bad := ""
			for i := range texts {
				wg.Add(1)
				go func(i int) {
					defer wg.Done()
					for rep := 0; rep < c.n(40, 200); rep++ {
						if got := f(texts[i]); got != base[i] {
							mu.Lock()
							if bad == "" {
								bad = fmt.Sprintf("worker %d: %s instead of %s", i, truncate(got, 200), truncate(base[i], 200))
							}
							mu.Unlock()
							return
						}
					}
				}(i)
			}
			wg.Wait()
			res.count("concurrent-errors|"+name, true)
			if bad != "" {
				res.fail("error-differs-under-concurrency:"+name, "the error reported for an input changes when other inputs are parsed at the same time", map[string]any{"entry": name, "workers": len(texts), "tokens_per_input": 2 * width}, bad)
			}
		}
	}
	// an error that was returned stays what it was: every error of a round over statement-less, lexically wrong and
	// syntactically wrong texts (through every entry point, tracked and untracked ones interleaved) is kept, the round is
	// repeated in another order, and then the kept errors are read again
	{
		texts := []string{"", ";", " ;; ", "-- c\n", "/* c */", "\n\n\n   ;", "\n\n\n\n      -- only\n   ", "SELECT FROM", "\n\n  SELECT a FROM t WHERE", "SELECT 'open", "\n   SELECT \"open", "SELECT 1 2", "\t\tFOO"}
		type kept struct {
			entry, text, snap string
			err               error
		}
		snapOf := func(err error) string {
			var se *goerrors.Error
			if errors.As(err, &se) {
				return fmt.Sprintf("%s|%s|%d:%d|%s", se.Code, se.Message, se.Location.Line, se.Location.Column, err.Error())
			}
			return "unstructured|" + err.Error()
		}
		var keptErrs []kept
		first := map[string]string{}
		for round := 0; round < 3; round++ {
			order := append([]string{}, names...)
			if round == 1 {
				for a, b := 0, len(order)-1; a < b; a, b = a+1, b-1 {
					order[a], order[b] = order[b], order[a]
				}
			}
			for ti := range texts {
				t := texts[(ti*(round+1)+round)%len(texts)]
				for _, name := range order {
					err := entries[name](t)
					if err == nil {
						continue
					}
					res.count(fmt.Sprintf("kept|%d|%s|%s", round, name, t), true)
					sn := snapOf(err)
					k := name + "\x00" + t
					if f, ok := first[k]; !ok {
						first[k] = sn
					} else if f != sn {
						res.fail("history-dependent-error:"+name, "the same rejected input gives a different error after other calls", map[string]any{"entry": name, "input": t, "round": round}, map[string]any{"first": f, "now": sn})
					}
					keptErrs = append(keptErrs, kept{name, t, sn, err})
				}
			}
		}
		for _, ke := range keptErrs {
			if now := snapOf(ke.err); now != ke.snap {
				res.fail("returned-error-changed-later", "an error value that had been returned reads differently after later calls", map[string]any{"entry": ke.entry, "input": ke.text}, map[string]any{"when_returned": ke.snap, "now": now})
				break
			}
		}
	}
	// long runs of failures on ONE parser (a reused parser.Parser, and one recovery-mode parse of a long script) do not
	// change what later inputs answer: after 60 failures inside any construct — the right or left operand of every binary
	// operator three levels deep, function arguments, CASE arms, lists, casts, sub-queries, CTE bodies … — a deep
	// well-formed statement is still accepted and a rejected one gives the error it gives on a fresh parser
	{
		type fam struct{ name, bad string }
		var fams []fam
		for _, op := range []string{"OR", "AND", "=", "<>", "<", "+", "-", "*", "/", "%", "||", "LIKE", "NOT LIKE", "IS NOT DISTINCT FROM"} {
			fams = append(fams, fam{"right-operand:" + op, "SELECT a FROM t WHERE a = 1 " + op + " (b = 2 " + op + " (c = 3 " + op + " ))"})
			fams = append(fams, fam{"left-operand:" + op, "SELECT a FROM t WHERE ((( " + op + " 3) " + op + " 2) " + op + " 1)"})
		}
		fams = append(fams, fam{"function-arguments", "SELECT f(1, g(2, h(3, )))"}, fam{"case-arms", "SELECT CASE WHEN a THEN CASE WHEN b THEN CASE WHEN c THEN END END END"},
			fam{"in-list-subquery", "SELECT a FROM t WHERE a IN (1, (SELECT b FROM u WHERE b IN (2, )))"}, fam{"cast", "SELECT CAST(CAST(CAST( AS INT) AS INT) AS INT)"},
			fam{"not", "SELECT a FROM t WHERE NOT (NOT (NOT ))"}, fam{"between", "SELECT a FROM t WHERE a BETWEEN 1 AND (b BETWEEN 2 AND (c BETWEEN 3 AND ))"}, fam{"unary-minus", "SELECT - (- (- ))"},
			fam{"derived-tables", "SELECT a FROM (SELECT b FROM (SELECT c FROM (SELECT )) y) x"}, fam{"cte-bodies", "WITH c AS (WITH d AS (SELECT a FROM t WHERE (1 OR )) SELECT 1) SELECT 2"},
			fam{"array", "SELECT ARRAY[1, ARRAY[2, ARRAY[3, ]]]"}, fam{"join-on", "SELECT a FROM t JOIN u ON (x = 1 OR (y = 2 OR (z = 3 OR )))"}, fam{"order-by", "SELECT a FROM t ORDER BY (a OR (b OR (c OR )))"},
			fam{"insert-values", "INSERT INTO t VALUES (1 OR (2 OR (3 OR )))"}, fam{"update-set", "UPDATE t SET a = (1 OR (2 OR (3 OR )))"}, fam{"exists", "SELECT a FROM t WHERE EXISTS (SELECT 1 FROM u WHERE EXISTS (SELECT 1 FROM v WHERE EXISTS (SELECT )))"},
			fam{"window", "SELECT SUM(a) OVER (PARTITION BY (b OR (c OR (d OR )))) FROM t"}, fam{"having", "SELECT a FROM t GROUP BY a HAVING (a OR (b OR (c OR )))"})
		probes := []string{"SELECT " + strings.Repeat("(", 70) + "1" + strings.Repeat(")", 70), "SELECT a FROM t WHERE a = 1 OR b = 2", "SELECT a FROM t WHERE (a = ", "SELECT f(1, ", "SELECT a FROM t WHERE a IN (SELECT b FROM u WHERE c = (SELECT 1))"}
		fresh := make([]string, len(probes))
		for i, pr := range probes {
			_, err := parser.NewParser().Parse(convOf(pr))
			fresh[i] = errKeyC13(err)
		}
		const runs = 60
		for _, f := range fams {
			badConv := convOf(f.bad)
			if badConv == nil {
				res.stat("failure-run-lex-error:" + f.name)
				continue
			}
			if _, err := parser.NewParser().Parse(badConv); err == nil {
				res.stat("failure-run-accepted:" + f.name)
				continue
			}
			res.count("failure-run|"+f.name, true)
			p := parser.NewParser()
			for i := 0; i < runs; i++ {
				_, _ = p.Parse(badConv)
			}
			// the Lean depth model (depth_restored_after_any_history): the real counter is back at 0
			res.CorrCases++
			if dpt := p.VerifDepth(); dpt != 0 {
				res.corrFail("depth-model", "the recursion-depth counter is not back at 0 after a run of failed parses, as the model with deferred decrements says",
					map[string]any{"failing_statement": f.bad, "construct": f.name, "times": runs}, map[string]any{"depth": dpt})
			}
			for i, pr := range probes {
				_, err := p.Parse(convOf(pr))
				if got := errKeyC13(err); got != fresh[i] {
					res.fail("error-after-failure-run:reused-parser", "after a run of failed parses on one parser a later input answers differently from a fresh parser",
						map[string]any{"failing_statement": f.bad, "construct": f.name, "times": runs, "then": truncate(pr, 120)}, map[string]any{"got": got, "fresh": fresh[i]})
					break
				}
			}
			// one recovery-mode parse of the whole run followed by the probes: the probes' own errors are those of a fresh parse
			script := strings.Repeat(f.bad+";\n", runs)
			for _, pr := range probes {
				script += pr + ";\n"
			}
			_, errs := gosqlx.ParseWithRecovery(script)
			var gotProbe []string
			for _, e := range errs {
				var se *goerrors.Error
				if errors.As(e, &se) && se.Location.Line > runs {
					gotProbe = append(gotProbe, fmt.Sprintf("%d:%s", se.Location.Line-runs, se.Code))
				}
			}
			var wantProbe []string
			for i := range probes {
				if fresh[i] != "ok" {
					wantProbe = append(wantProbe, fmt.Sprintf("%d:%s", i+1, strings.SplitN(fresh[i], "|", 2)[0]))
				}
			}
			if strings.Join(gotProbe, " ") != strings.Join(wantProbe, " ") {
				res.fail("error-after-failure-run:recovery", "in one recovery-mode parse, the statements after a run of malformed ones do not give the errors (line of the statement: code) they give alone",
					map[string]any{"failing_statement": f.bad, "construct": f.name, "times": runs}, map[string]any{"got": gotProbe, "want": wantProbe})
			}
		}
	}
}

func errKeyC13(err error) string {
	if err == nil {
		return "ok"
	}
	var se *goerrors.Error
	if errors.As(err, &se) {
		return fmt.Sprintf("%s|%s", se.Code, se.Message)
	}
	return "unstructured|" + err.Error()
}
