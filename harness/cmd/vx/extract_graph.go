package main

import (
	"fmt"
	"go/ast"
	"go/constant"
	"go/token"
	"go/types"
	"path/filepath"
	"sort"
	"strings"

	"golang.org/x/tools/go/packages"
)

// CallEdge: a static call (or method value) from one method of the receiver type to another.
// Guarded = the call site is dominated (syntactically: preceded in the same or an enclosing block)
// by the idiom `recv.depth++ ; ... if recv.depth > MaxRecursionDepth { return ... }`.
type CallEdge struct {
	Src     string `json:"src"`
	Dst     string `json:"dst"`
	Guarded bool   `json:"guarded"`
	Pos     string `json:"pos"`
}

type CallGraph struct {
	Pkg    string         `json:"pkg"`
	Recv   string         `json:"recv"`
	Funcs  []string       `json:"funcs"`
	Edges  []CallEdge     `json:"edges"`
	Rank   map[string]int `json:"rank"` // ranking certificate over the unguarded sub-graph
	Cyclic []string       `json:"cyclic"`
}

func isDepthSel(p *packages.Package, e ast.Expr, recv types.Object) bool {
	se, ok := e.(*ast.SelectorExpr)
	if !ok || se.Sel.Name != "depth" {
		return false
	}
	id, ok := se.X.(*ast.Ident)
	return ok && p.TypesInfo.Uses[id] == recv
}

func extractCallGraph(l *loaded, pkgKey, recvType string) (*CallGraph, error) {
	p := l.pkgs[pkgKey]
	if p == nil {
		return nil, fmt.Errorf("%s not loaded", pkgKey)
	}
	g := &CallGraph{Pkg: pkgKey, Recv: recvType, Rank: map[string]int{}}
	type edgeKey struct {
		s, d string
		g    bool
	}
	seen := map[edgeKey]bool{}
	methods := map[string]bool{}
	for _, f := range p.Syntax {
		for _, d := range f.Decls {
			fd, ok := d.(*ast.FuncDecl)
			if ok && fd.Recv != nil && fd.Body != nil && recvName(fd) == recvType {
				methods[fd.Name.Name] = true
			}
		}
	}
	for _, f := range p.Syntax {
		for _, d := range f.Decls {
			fd, ok := d.(*ast.FuncDecl)
			if !ok || fd.Recv == nil || fd.Body == nil || recvName(fd) != recvType {
				continue
			}
			var recvObj types.Object
			if len(fd.Recv.List[0].Names) == 1 {
				recvObj = p.TypesInfo.Defs[fd.Recv.List[0].Names[0]]
			}
			src := fd.Name.Name
			addEdges := func(n ast.Node, guarded bool) {
				ast.Inspect(n, func(x ast.Node) bool {
					if _, ok := x.(*ast.BlockStmt); ok && x != n {
						return false // nested blocks are handled by the block walker
					}
					if _, ok := x.(*ast.FuncLit); ok {
						return true
					}
					se, ok := x.(*ast.SelectorExpr)
					if !ok {
						return true
					}
					id, ok := se.X.(*ast.Ident)
					if !ok || recvObj == nil || p.TypesInfo.Uses[id] != recvObj {
						return true
					}
					if sel := p.TypesInfo.Selections[se]; sel != nil && sel.Kind() == types.MethodVal && methods[se.Sel.Name] {
						k := edgeKey{src, se.Sel.Name, guarded}
						if !seen[k] {
							seen[k] = true
							pos := l.fset.Position(se.Pos())
							g.Edges = append(g.Edges, CallEdge{src, se.Sel.Name, guarded, fmt.Sprintf("%s:%d", filepath.Base(pos.Filename), pos.Line)})
						}
					}
					return true
				})
			}
			var walkBlock func(stmts []ast.Stmt, guarded bool)
			var walkStmt func(s ast.Stmt, guarded bool)
			walkStmt = func(s ast.Stmt, guarded bool) {
				// edges in the statement's own expressions, then nested blocks
				addEdges(s, guarded)
				ast.Inspect(s, func(x ast.Node) bool {
					if b, ok := x.(*ast.BlockStmt); ok {
						walkBlock(b.List, guarded)
						return false
					}
					if cc, ok := x.(*ast.CaseClause); ok {
						for _, e := range cc.List {
							addEdges(e, guarded)
						}
						walkBlock(cc.Body, guarded)
						return false
					}
					if cc, ok := x.(*ast.CommClause); ok {
						walkBlock(cc.Body, guarded)
						return false
					}
					return true
				})
			}
			walkBlock = func(stmts []ast.Stmt, guarded bool) {
				incSeen := false
				for _, s := range stmts {
					if !guarded {
						if inc, ok := s.(*ast.IncDecStmt); ok && inc.Tok == token.INC && isDepthSel(p, inc.X, recvObj) {
							incSeen = true
							continue
						}
						if ifs, ok := s.(*ast.IfStmt); ok && incSeen && ifs.Init == nil {
							if be, ok := ifs.Cond.(*ast.BinaryExpr); ok && be.Op == token.GTR && isDepthSel(p, be.X, recvObj) && endsWithReturn(ifs.Body) {
								// the guard itself: its body runs with the limit exceeded and must not recurse
								walkBlock(ifs.Body.List, false)
								guarded = true
								continue
							}
						}
					}
					walkStmt(s, guarded)
				}
			}
			walkBlock(fd.Body.List, false)
		}
	}
	g.Funcs = sortedKeys(methods)
	sort.Slice(g.Edges, func(i, j int) bool {
		a, b := g.Edges[i], g.Edges[j]
		if a.Src != b.Src {
			return a.Src < b.Src
		}
		if a.Dst != b.Dst {
			return a.Dst < b.Dst
		}
		return !a.Guarded && b.Guarded
	})
	// ranking certificate over unguarded edges: rank f = 1 + max rank of unguarded callees
	adj := map[string][]string{}
	for _, e := range g.Edges {
		if !e.Guarded {
			adj[e.Src] = append(adj[e.Src], e.Dst)
		}
	}
	for _, f := range g.Funcs {
		g.Rank[f] = 0
	}
	n := len(g.Funcs)
	for round := 0; round <= n+1; round++ {
		changed := false
		for _, f := range g.Funcs {
			r := 0
			for _, d := range adj[f] {
				if g.Rank[d]+1 > r {
					r = g.Rank[d] + 1
				}
			}
			if r > n+1 {
				r = n + 1 // cycle: cap (the Lean obligation will list the offending edges)
			}
			if r != g.Rank[f] {
				g.Rank[f] = r
				changed = true
			}
		}
		if !changed {
			break
		}
	}
	for _, e := range g.Edges {
		if !e.Guarded && !(g.Rank[e.Dst] < g.Rank[e.Src]) {
			g.Cyclic = append(g.Cyclic, e.Src+"->"+e.Dst)
		}
	}
	return g, nil
}

func endsWithReturn(b *ast.BlockStmt) bool {
	if len(b.List) == 0 {
		return false
	}
	_, ok := b.List[len(b.List)-1].(*ast.ReturnStmt)
	return ok
}

func recvName(fd *ast.FuncDecl) string {
	t := fd.Recv.List[0].Type
	if s, ok := t.(*ast.StarExpr); ok {
		t = s.X
	}
	if id, ok := t.(*ast.Ident); ok {
		return id.Name
	}
	return ""
}

func emitGraphLean(name string, g *CallGraph, dir string) error {
	var b strings.Builder
	b.WriteString(genHeader)
	b.WriteString("namespace GoSQLXModel.Gen\n\n")
	fmt.Fprintf(&b, "/-- static call edges among the methods of %s.%s: (caller, callee, guarded by the depth idiom) -/\n", g.Pkg, g.Recv)
	fmt.Fprintf(&b, "def %sEdges : List (String × String × Bool) := [\n", name)
	for i, e := range g.Edges {
		sep := ","
		if i == len(g.Edges)-1 {
			sep = ""
		}
		fmt.Fprintf(&b, "  (%s, %s, %s)%s\n", leanStr(e.Src), leanStr(e.Dst), leanBool(e.Guarded), sep)
	}
	b.WriteString("]\n\n")
	fmt.Fprintf(&b, "/-- ranking certificate over the unguarded sub-graph -/\ndef %sRank : List (String × Nat) := [\n", name)
	for i, f := range g.Funcs {
		sep := ","
		if i == len(g.Funcs)-1 {
			sep = ""
		}
		fmt.Fprintf(&b, "  (%s, %d)%s\n", leanStr(f), g.Rank[f], sep)
	}
	b.WriteString("]\n\nend GoSQLXModel.Gen\n")
	_, err := writeIfChanged(filepath.Join(dir, strings.ToUpper(name[:1])+name[1:]+"Graph.lean"), []byte(b.String()))
	return err
}

// Limits: integer constants the limit theorems are instantiated at
func extractLimits(l *loaded) (map[string]int64, error) {
	out := map[string]int64{}
	want := []struct{ pkg, name string }{
		{"pkg/sql/tokenizer", "MaxInputSize"}, {"pkg/sql/tokenizer", "MaxTokens"},
		{"pkg/sql/parser", "MaxRecursionDepth"}, {"pkg/sql/ast", "MaxCleanupDepth"}, {"pkg/sql/ast", "MaxWorkQueueSize"},
		{"pkg/lsp", "MaxContentLength"}, {"pkg/lsp", "MaxDocumentSize"}, {"pkg/lsp", "RateLimitRequests"},
	}
	for _, w := range want {
		p := l.pkgs[w.pkg]
		if p == nil {
			continue
		}
		if c, ok := p.Types.Scope().Lookup(w.name).(*types.Const); ok {
			if v, ok := constant.Int64Val(constant.ToInt(c.Val())); ok {
				out[w.name] = v
			}
		}
	}
	return out, nil
}

func emitLimitsLean(lim map[string]int64, dir string) error {
	var b strings.Builder
	b.WriteString(genHeader)
	b.WriteString("namespace GoSQLXModel.Gen\n\n")
	keys := make([]string, 0, len(lim))
	for k := range lim {
		keys = append(keys, k)
	}
	sort.Strings(keys)
	for _, k := range keys {
		fmt.Fprintf(&b, "def limit%s : Nat := %d\n", k, lim[k])
	}
	b.WriteString("\nend GoSQLXModel.Gen\n")
	_, err := writeIfChanged(filepath.Join(dir, "Limits.lean"), []byte(b.String()))
	return err
}
