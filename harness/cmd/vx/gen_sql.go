package main

// Model-grammar generator (G-expr / G-stmt of DESIGN §7): builds model trees, renders them with
// the parentheses standard precedence requires plus random redundant ones, random keyword case and
// random layout, and remembers which names it placed where.

import (
	"fmt"
	"strings"
)

// ---------------------------------------------------------------------------------------------
// model expression trees

type GExpr struct {
	K     string   // ident num str bool null bin not isnull between inlist insub like func case cast exists notexists subq star
	Op    string   // operator (upper case) for bin / like ; type for cast ; function name
	Table string   // qualifier for ident
	Name  string   // ident name / literal text
	Not   bool     // negated form (NOT LIKE, NOT IN, NOT BETWEEN, IS NOT NULL)
	Dist  bool     // DISTINCT in function call
	A     []*GExpr // operands / arguments / list
	Sub   *GSelect // sub-query
	Else  *GExpr   // CASE else
	Val   *GExpr   // CASE operand
}

// precedence levels of the implemented ladder (after the F5 fix):
// OR 1 < AND 2 < NOT 3 < comparison 4 (non-associative) < || 5 < + - 6 < * / % 7 < primary 9
func binPrec(op string) int {
	switch op {
	case "OR":
		return 1
	case "AND":
		return 2
	case "=", "<>", "!=", "<", ">", "<=", ">=":
		return 4
	case "||":
		return 5
	case "+", "-":
		return 6
	case "*", "/", "%":
		return 7
	}
	return 9
}

func (e *GExpr) prec() int {
	switch e.K {
	case "bin":
		return binPrec(e.Op)
	case "not", "notexists":
		return 3
	case "isnull", "between", "inlist", "insub", "like":
		return 4
	}
	return 9
}

// canon: canonical text of the model tree (fully parenthesised, upper-case operators)
func (e *GExpr) canon() string {
	if e == nil {
		return "_"
	}
	args := func() string {
		xs := make([]string, len(e.A))
		for i, a := range e.A {
			xs[i] = a.canon()
		}
		return strings.Join(xs, ",")
	}
	n := ""
	if e.Not {
		n = "!"
	}
	switch e.K {
	case "ident":
		if e.Table != "" {
			return "id(" + e.Table + "." + e.Name + ")"
		}
		return "id(" + e.Name + ")"
	case "star":
		return "id(*)"
	case "num":
		return "num(" + e.Name + ")"
	case "str":
		return "str(" + e.Name + ")"
	case "bool":
		return "bool(" + strings.ToUpper(e.Name) + ")"
	case "null":
		return "null"
	case "bin":
		return "(" + e.A[0].canon() + " " + e.Op + " " + e.A[1].canon() + ")"
	case "not":
		return "not(" + e.A[0].canon() + ")"
	case "isnull":
		return n + "isnull(" + e.A[0].canon() + ")"
	case "between":
		return n + "between(" + args() + ")"
	case "inlist":
		return n + "in(" + args() + ")"
	case "insub":
		return n + "insub(" + e.A[0].canon() + "," + e.Sub.canon() + ")"
	case "like":
		return n + strings.ToLower(e.Op) + "(" + args() + ")"
	case "func":
		d := ""
		if e.Dist {
			d = "distinct "
		}
		return "fn " + strings.ToUpper(e.Op) + "(" + d + args() + ")"
	case "case":
		s := "case(" + e.Val.canon() + ";"
		for i := 0; i+1 < len(e.A); i += 2 {
			s += e.A[i].canon() + "=>" + e.A[i+1].canon() + ";"
		}
		return s + e.Else.canon() + ")"
	case "cast":
		return "cast(" + e.A[0].canon() + " as " + strings.ToUpper(e.Op) + ")"
	case "exists":
		return "exists(" + e.Sub.canon() + ")"
	case "notexists":
		return "not(exists(" + e.Sub.canon() + "))"
	case "subq":
		return "subq(" + e.Sub.canon() + ")"
	}
	return "?" + e.K
}

// ---------------------------------------------------------------------------------------------
// model statements

type GCol struct {
	E     *GExpr
	Alias string
}
type GFrom struct {
	Table string
	Alias string
	Sub   *GSelect
}
type GJoin struct {
	Kind  string // INNER LEFT RIGHT FULL CROSS
	Right GFrom
	On    *GExpr
	Using []string
}
type GOrder struct {
	E     *GExpr
	Desc  bool
	Nulls string // "", FIRST, LAST
}
type GSelect struct {
	Distinct bool
	Cols     []GCol
	From     []GFrom
	Joins    []GJoin
	Where    *GExpr
	GroupBy  []*GExpr
	Having   *GExpr
	OrderBy  []GOrder
	Limit    int // -1 none
	Offset   int // -1 none
	// set operation: Left op Right when SetOp != ""
	SetOp    string
	SetAll   bool
	SetLeft  *GSelect
	SetRight *GSelect
	// WITH
	CTEs []GCTE
}
type GCTE struct {
	Name string
	Body *GSelect
}

func (f GFrom) canon() string {
	if f.Sub != nil {
		return "(" + f.Sub.canon() + ")@" + f.Alias
	}
	return f.Table + "@" + f.Alias
}

func (s *GSelect) canon() string {
	if s == nil {
		return "_"
	}
	var b strings.Builder
	if len(s.CTEs) > 0 {
		b.WriteString("with[")
		for _, c := range s.CTEs {
			b.WriteString(c.Name + ":=" + c.Body.canon() + ";")
		}
		b.WriteString("]")
	}
	if s.SetOp != "" {
		all := ""
		if s.SetAll {
			all = " ALL"
		}
		b.WriteString("{" + s.SetLeft.canon() + " " + s.SetOp + all + " " + s.SetRight.canon() + "}")
		return b.String()
	}
	b.WriteString("select")
	if s.Distinct {
		b.WriteString(" distinct")
	}
	b.WriteString("[")
	for _, c := range s.Cols {
		b.WriteString(c.E.canon() + "@" + c.Alias + ";")
	}
	b.WriteString("]from[")
	for _, f := range s.From {
		b.WriteString(f.canon() + ";")
	}
	b.WriteString("]joins[")
	for _, j := range s.Joins {
		b.WriteString(j.Kind + " " + j.Right.canon() + " on " + j.On.canon() + " using " + strings.Join(j.Using, ",") + ";")
	}
	b.WriteString("]where " + s.Where.canon() + " group[")
	for _, g := range s.GroupBy {
		b.WriteString(g.canon() + ";")
	}
	b.WriteString("]having " + s.Having.canon() + " order[")
	for _, o := range s.OrderBy {
		b.WriteString(fmt.Sprintf("%s %v %s;", o.E.canon(), o.Desc, o.Nulls))
	}
	b.WriteString(fmt.Sprintf("]limit %d offset %d", s.Limit, s.Offset))
	return b.String()
}

// ---------------------------------------------------------------------------------------------
// generator

type sqlGen struct {
	r         *Rng
	depth     int
	MaxDepth  int
	Plain     bool // no redundant parentheses, upper-case keywords, single spaces
	tables    []string
	cols      []string
	funcs     []string
	usedTable map[string]bool
	// names placed by the last statement (for C15)
	Tables, Columns, Funcs map[string]bool
	nsub                   int
}

func newSQLGen(r *Rng) *sqlGen {
	return &sqlGen{r: r, MaxDepth: 4,
		tables: []string{"users", "orders", "items", "t1", "t2", "accounts", "events", "logs"},
		cols:   []string{"id", "name", "price", "qty", "a", "b", "c", "created_at", "status", "total"},
		funcs:  []string{"ABS", "LOWER", "UPPER", "COALESCE", "LENGTH", "ROUND", "NULLIF", "CONCAT"},
	}
}

func (g *sqlGen) reset() {
	g.Tables, g.Columns, g.Funcs = map[string]bool{}, map[string]bool{}, map[string]bool{}
	g.nsub = 0
}

func (g *sqlGen) ident() *GExpr {
	c := g.r.Pick(g.cols)
	g.Columns[c] = true
	if g.r.Chance(25) {
		t := g.r.Pick(g.tables)
		return &GExpr{K: "ident", Table: t, Name: c}
	}
	return &GExpr{K: "ident", Name: c}
}

func (g *sqlGen) literal() *GExpr {
	switch g.r.Intn(6) {
	case 0:
		return &GExpr{K: "str", Name: g.r.Pick([]string{"x", "abc", "it's", "", "a b", "ORDER BY", "100%", "-- no", "/* c */", "select"})}
	case 1:
		return &GExpr{K: "num", Name: g.r.Pick([]string{"1.5", "0.25", "1e3", "2.5E-2", "10.0"})}
	case 2:
		return &GExpr{K: "bool", Name: g.r.Pick([]string{"TRUE", "FALSE"})}
	case 3:
		return &GExpr{K: "null"}
	default:
		return &GExpr{K: "num", Name: fmt.Sprint(g.r.Intn(1000))}
	}
}

var cmpOps = []string{"=", "<>", "!=", "<", ">", "<=", ">="}
var arithOps = []string{"+", "-", "*", "/", "%", "||"}

// Expr generates a value-level or boolean-level expression tree of bounded depth.
func (g *sqlGen) Expr(d int) *GExpr {
	if d <= 0 {
		if g.r.Chance(60) {
			return g.ident()
		}
		return g.literal()
	}
	switch g.r.Intn(20) {
	case 0, 1:
		return &GExpr{K: "bin", Op: "AND", A: []*GExpr{g.Expr(d - 1), g.Expr(d - 1)}}
	case 2, 3:
		return &GExpr{K: "bin", Op: "OR", A: []*GExpr{g.Expr(d - 1), g.Expr(d - 1)}}
	case 4:
		return &GExpr{K: "not", A: []*GExpr{g.Expr(d - 1)}}
	case 5, 6, 7:
		return &GExpr{K: "bin", Op: g.r.Pick(cmpOps), A: []*GExpr{g.Expr(d - 1), g.Expr(d - 1)}}
	case 8, 9, 10:
		return &GExpr{K: "bin", Op: g.r.Pick(arithOps), A: []*GExpr{g.Expr(d - 1), g.Expr(d - 1)}}
	case 11:
		return &GExpr{K: "isnull", Not: g.r.Bool(), A: []*GExpr{g.Expr(d - 1)}}
	case 12:
		return &GExpr{K: "between", Not: g.r.Bool(), A: []*GExpr{g.Expr(d - 1), g.Expr(d - 1), g.Expr(d - 1)}}
	case 13:
		n := 1 + g.r.Intn(3)
		a := []*GExpr{g.Expr(d - 1)}
		for i := 0; i < n; i++ {
			a = append(a, g.Expr(d-1))
		}
		return &GExpr{K: "inlist", Not: g.r.Bool(), A: a}
	case 14:
		return &GExpr{K: "like", Op: g.r.Pick([]string{"LIKE", "ILIKE"}), Not: g.r.Bool(), A: []*GExpr{g.Expr(d - 1), {K: "str", Name: g.r.Pick([]string{"a%", "%b", "_c_"})}}}
	case 15:
		f := g.r.Pick(g.funcs)
		g.Funcs[f] = true
		n := 1 + g.r.Intn(2)
		var a []*GExpr
		for i := 0; i < n; i++ {
			a = append(a, g.Expr(d-1))
		}
		return &GExpr{K: "func", Op: f, A: a}
	case 16:
		e := &GExpr{K: "case"}
		if g.r.Chance(30) {
			e.Val = g.Expr(d - 1)
		}
		for i := 0; i < 1+g.r.Intn(2); i++ {
			e.A = append(e.A, g.Expr(d-1), g.Expr(d-1))
		}
		if g.r.Bool() {
			e.Else = g.Expr(d - 1)
		}
		return e
	case 17:
		return &GExpr{K: "cast", Op: g.r.Pick([]string{"INT", "TEXT", "VARCHAR(10)", "NUMERIC(10,2)"}), A: []*GExpr{g.Expr(d - 1)}}
	case 18:
		if g.nsub < 2 {
			g.nsub++
			k := g.r.Pick([]string{"exists", "notexists", "subq", "insub"})
			sub := g.simpleSelect(d - 1)
			if k == "insub" {
				return &GExpr{K: "insub", Not: g.r.Bool(), A: []*GExpr{g.Expr(d - 1)}, Sub: sub}
			}
			return &GExpr{K: k, Sub: sub}
		}
		return g.ident()
	default:
		if g.r.Bool() {
			return g.ident()
		}
		return g.literal()
	}
}

func (g *sqlGen) table() GFrom {
	t := g.r.Pick(g.tables)
	g.Tables[t] = true
	f := GFrom{Table: t}
	if g.r.Chance(40) {
		f.Alias = g.r.Pick([]string{"x", "y", "z", "m", "n"})
	}
	return f
}

func (g *sqlGen) simpleSelect(d int) *GSelect {
	if d < 0 {
		d = 0
	}
	s := &GSelect{Limit: -1, Offset: -1}
	s.Cols = []GCol{{E: g.Expr(minInt(d, 1))}}
	s.From = []GFrom{g.table()}
	if g.r.Bool() {
		s.Where = g.Expr(minInt(d, 2))
	}
	return s
}

func minInt(a, b int) int {
	if a < b {
		return a
	}
	return b
}

// Select generates a SELECT with a random subset of clauses.
func (g *sqlGen) Select(d int) *GSelect {
	s := &GSelect{Limit: -1, Offset: -1}
	s.Distinct = g.r.Chance(15)
	for i := 0; i < 1+g.r.Intn(3); i++ {
		c := GCol{E: g.Expr(g.r.Intn(d + 1))}
		if g.r.Chance(30) {
			c.Alias = g.r.Pick([]string{"c1", "c2", "res", "val"})
		}
		s.Cols = append(s.Cols, c)
	}
	if g.r.Chance(10) {
		s.Cols = []GCol{{E: &GExpr{K: "star"}}}
	}
	for i := 0; i < 1+g.r.Intn(2); i++ {
		if g.r.Chance(12) && g.nsub < 2 {
			g.nsub++
			s.From = append(s.From, GFrom{Sub: g.simpleSelect(d - 1), Alias: g.r.Pick([]string{"d1", "d2", "dt"})})
		} else {
			s.From = append(s.From, g.table())
		}
	}
	for i := 0; i < g.r.Intn(3); i++ {
		j := GJoin{Kind: g.r.Pick([]string{"INNER", "LEFT", "RIGHT", "FULL", "CROSS"}), Right: g.table()}
		if j.Kind != "CROSS" {
			j.On = g.Expr(g.r.Intn(d + 1))
		}
		s.Joins = append(s.Joins, j)
	}
	if g.r.Chance(70) {
		s.Where = g.Expr(d)
	}
	if g.r.Chance(30) {
		for i := 0; i < 1+g.r.Intn(2); i++ {
			s.GroupBy = append(s.GroupBy, g.ident())
		}
		if g.r.Chance(50) {
			s.Having = g.Expr(g.r.Intn(d + 1))
		}
	}
	if g.r.Chance(40) {
		for i := 0; i < 1+g.r.Intn(2); i++ {
			o := GOrder{E: g.ident(), Desc: g.r.Bool()}
			if g.r.Chance(25) {
				o.Nulls = g.r.Pick([]string{"FIRST", "LAST"})
			}
			s.OrderBy = append(s.OrderBy, o)
		}
	}
	if g.r.Chance(30) {
		s.Limit = g.r.Intn(100)
		if g.r.Chance(40) {
			s.Offset = g.r.Intn(50)
		}
	}
	return s
}

// Query generates a SELECT, a set operation over SELECTs, or a WITH query.
func (g *sqlGen) Query(d int) *GSelect {
	switch g.r.Intn(10) {
	case 0, 1:
		l, r := g.simpleSelect(d), g.simpleSelect(d)
		op := g.r.Pick([]string{"UNION", "EXCEPT", "INTERSECT"})
		return &GSelect{SetOp: op, SetAll: op == "UNION" && g.r.Bool(), SetLeft: l, SetRight: r, Limit: -1, Offset: -1}
	case 2:
		s := g.Select(d)
		for i := 0; i < 1+g.r.Intn(2); i++ {
			s.CTEs = append(s.CTEs, GCTE{Name: g.r.Pick([]string{"cte1", "cte2", "w"}) + fmt.Sprint(i), Body: g.simpleSelect(d)})
		}
		return s
	default:
		return g.Select(d)
	}
}

// ---------------------------------------------------------------------------------------------
// rendering

func (g *sqlGen) kw(s string) string {
	if g.Plain {
		return s
	}
	switch g.r.Intn(4) {
	case 0:
		return strings.ToLower(s)
	case 1:
		// mixed
		b := []byte(strings.ToLower(s))
		for i := range b {
			if g.r.Bool() && b[i] >= 'a' && b[i] <= 'z' {
				b[i] -= 32
			}
		}
		return string(b)
	}
	return s
}

func (g *sqlGen) sp() string {
	if g.Plain {
		return " "
	}
	switch g.r.Intn(12) {
	case 0:
		return "  "
	case 1:
		return "\n"
	case 2:
		return "\t"
	case 3:
		return " /* c */ "
	case 4:
		return " -- c\n"
	case 5:
		return "\n\n  "
	}
	return " "
}

func sqlString(s string) string { return "'" + strings.ReplaceAll(s, "'", "''") + "'" }

// renderExpr renders e so that it parses back to e when it appears where an operand of level
// `min` is expected: it is parenthesised iff its own level is below `min`; plus redundant parentheses.
func (g *sqlGen) renderExpr(e *GExpr, min int) string {
	s := g.renderBare(e)
	if e.prec() < min {
		s = "(" + s + ")"
	}
	if !g.Plain && g.r.Chance(8) {
		s = "(" + s + ")"
	}
	return s
}

func (g *sqlGen) renderBare(e *GExpr) string {
	sp := g.sp
	switch e.K {
	case "ident":
		if e.Table != "" {
			return e.Table + "." + e.Name
		}
		return e.Name
	case "star":
		return "*"
	case "num":
		return e.Name
	case "str":
		return sqlString(e.Name)
	case "bool":
		return g.kw(e.Name)
	case "null":
		return g.kw("NULL")
	case "bin":
		p := binPrec(e.Op)
		op := e.Op
		if op == "AND" || op == "OR" {
			op = g.kw(op)
		}
		lmin, rmin := p, p+1
		if p == 4 { // comparisons are non-associative; both operands at the || level
			lmin, rmin = 5, 5
		}
		return g.renderExpr(e.A[0], lmin) + sp() + op + sp() + g.renderExpr(e.A[1], rmin)
	case "not":
		// operand is parsed at the comparison level
		return g.kw("NOT") + sp() + g.renderExpr(e.A[0], 4)
	case "isnull":
		s := g.renderExpr(e.A[0], 5) + sp() + g.kw("IS") + sp()
		if e.Not {
			s += g.kw("NOT") + sp()
		}
		return s + g.kw("NULL")
	case "between":
		s := g.renderExpr(e.A[0], 5) + sp()
		if e.Not {
			s += g.kw("NOT") + sp()
		}
		return s + g.kw("BETWEEN") + sp() + g.renderExpr(e.A[1], 5) + sp() + g.kw("AND") + sp() + g.renderExpr(e.A[2], 5)
	case "inlist":
		s := g.renderExpr(e.A[0], 5) + sp()
		if e.Not {
			s += g.kw("NOT") + sp()
		}
		xs := make([]string, len(e.A)-1)
		for i, a := range e.A[1:] {
			xs[i] = g.renderExpr(a, 1)
		}
		return s + g.kw("IN") + sp() + "(" + strings.Join(xs, ","+sp()) + ")"
	case "insub":
		s := g.renderExpr(e.A[0], 5) + sp()
		if e.Not {
			s += g.kw("NOT") + sp()
		}
		return s + g.kw("IN") + sp() + "(" + g.renderSelect(e.Sub) + ")"
	case "like":
		s := g.renderExpr(e.A[0], 5) + sp()
		if e.Not {
			s += g.kw("NOT") + sp()
		}
		return s + g.kw(e.Op) + sp() + g.renderExpr(e.A[1], 9)
	case "func":
		xs := make([]string, len(e.A))
		for i, a := range e.A {
			xs[i] = g.renderExpr(a, 1)
		}
		d := ""
		if e.Dist {
			d = g.kw("DISTINCT") + " "
		}
		return e.Op + "(" + d + strings.Join(xs, ","+sp()) + ")"
	case "case":
		s := g.kw("CASE")
		if e.Val != nil {
			s += sp() + g.renderExpr(e.Val, 1)
		}
		for i := 0; i+1 < len(e.A); i += 2 {
			s += sp() + g.kw("WHEN") + sp() + g.renderExpr(e.A[i], 1) + sp() + g.kw("THEN") + sp() + g.renderExpr(e.A[i+1], 1)
		}
		if e.Else != nil {
			s += sp() + g.kw("ELSE") + sp() + g.renderExpr(e.Else, 1)
		}
		return s + sp() + g.kw("END")
	case "cast":
		return g.kw("CAST") + "(" + g.renderExpr(e.A[0], 1) + sp() + g.kw("AS") + sp() + e.Op + ")"
	case "exists":
		return g.kw("EXISTS") + sp() + "(" + g.renderSelect(e.Sub) + ")"
	case "notexists":
		return g.kw("NOT") + sp() + g.kw("EXISTS") + sp() + "(" + g.renderSelect(e.Sub) + ")"
	case "subq":
		return "(" + g.renderSelect(e.Sub) + ")"
	}
	return "?"
}

func (g *sqlGen) renderFrom(f GFrom) string {
	s := f.Table
	if f.Sub != nil {
		s = "(" + g.renderSelect(f.Sub) + ")"
	}
	if f.Alias != "" {
		if f.Sub != nil || g.r.Bool() {
			s += g.sp() + g.kw("AS")
		}
		s += g.sp() + f.Alias
	}
	return s
}

func (g *sqlGen) renderSelect(s *GSelect) string {
	sp := g.sp
	var b strings.Builder
	if len(s.CTEs) > 0 {
		b.WriteString(g.kw("WITH") + sp())
		for i, c := range s.CTEs {
			if i > 0 {
				b.WriteString("," + sp())
			}
			b.WriteString(c.Name + sp() + g.kw("AS") + sp() + "(" + g.renderSelect(c.Body) + ")")
		}
		b.WriteString(sp())
	}
	if s.SetOp != "" {
		b.WriteString(g.renderSelect(s.SetLeft) + sp() + g.kw(s.SetOp))
		if s.SetAll {
			b.WriteString(sp() + g.kw("ALL"))
		}
		b.WriteString(sp() + g.renderSelect(s.SetRight))
		return b.String()
	}
	b.WriteString(g.kw("SELECT") + sp())
	if s.Distinct {
		b.WriteString(g.kw("DISTINCT") + sp())
	}
	for i, c := range s.Cols {
		if i > 0 {
			b.WriteString("," + sp())
		}
		b.WriteString(g.renderExpr(c.E, 1))
		if c.Alias != "" {
			b.WriteString(sp() + g.kw("AS") + sp() + c.Alias)
		}
	}
	b.WriteString(sp() + g.kw("FROM") + sp())
	for i, f := range s.From {
		if i > 0 {
			b.WriteString("," + sp())
		}
		b.WriteString(g.renderFrom(f))
	}
	for _, j := range s.Joins {
		kind := j.Kind
		switch kind {
		case "INNER":
			if g.r.Bool() {
				b.WriteString(sp() + g.kw("JOIN") + sp())
			} else {
				b.WriteString(sp() + g.kw("INNER") + sp() + g.kw("JOIN") + sp())
			}
		case "LEFT", "RIGHT", "FULL":
			if g.r.Chance(30) {
				b.WriteString(sp() + g.kw(kind) + sp() + g.kw("OUTER") + sp() + g.kw("JOIN") + sp())
			} else {
				b.WriteString(sp() + g.kw(kind) + sp() + g.kw("JOIN") + sp())
			}
		default:
			b.WriteString(sp() + g.kw(kind) + sp() + g.kw("JOIN") + sp())
		}
		b.WriteString(g.renderFrom(j.Right))
		if j.On != nil {
			b.WriteString(sp() + g.kw("ON") + sp() + g.renderExpr(j.On, 1))
		}
	}
	if s.Where != nil {
		b.WriteString(sp() + g.kw("WHERE") + sp() + g.renderExpr(s.Where, 1))
	}
	if len(s.GroupBy) > 0 {
		b.WriteString(sp() + g.kw("GROUP") + sp() + g.kw("BY") + sp())
		for i, e := range s.GroupBy {
			if i > 0 {
				b.WriteString("," + sp())
			}
			b.WriteString(g.renderExpr(e, 1))
		}
	}
	if s.Having != nil { // also without GROUP BY: the whole result is one group
		b.WriteString(sp() + g.kw("HAVING") + sp() + g.renderExpr(s.Having, 1))
	}
	if len(s.OrderBy) > 0 {
		b.WriteString(sp() + g.kw("ORDER") + sp() + g.kw("BY") + sp())
		for i, o := range s.OrderBy {
			if i > 0 {
				b.WriteString("," + sp())
			}
			b.WriteString(g.renderExpr(o.E, 1))
			if o.Desc {
				b.WriteString(sp() + g.kw("DESC"))
			} else if g.r.Chance(30) {
				b.WriteString(sp() + g.kw("ASC"))
			}
			if o.Nulls != "" {
				b.WriteString(sp() + g.kw("NULLS") + sp() + g.kw(o.Nulls))
			}
		}
	}
	if s.Limit >= 0 {
		b.WriteString(sp() + g.kw("LIMIT") + sp() + fmt.Sprint(s.Limit))
	}
	if s.Offset >= 0 { // also without LIMIT
		b.WriteString(sp() + g.kw("OFFSET") + sp() + fmt.Sprint(s.Offset))
	}
	return b.String()
}

// Statement returns SQL text of a random model statement (query or DML).
func (g *sqlGen) Statement() string {
	g.reset()
	switch g.r.Intn(10) {
	case 0:
		t := g.table()
		n := 1 + g.r.Intn(3)
		cols := make([]string, n)
		for i := range cols {
			cols[i] = g.cols[(i*3+g.r.Intn(3))%len(g.cols)]
		}
		rows := []string{}
		for r := 0; r < 1+g.r.Intn(3); r++ {
			vals := make([]string, n)
			for i := range vals {
				vals[i] = g.renderExpr(g.Expr(1), 1)
			}
			rows = append(rows, "("+strings.Join(vals, ", ")+")")
		}
		return g.kw("INSERT") + " " + g.kw("INTO") + " " + t.Table + " (" + strings.Join(cols, ", ") + ") " + g.kw("VALUES") + " " + strings.Join(rows, ", ")
	case 1:
		t := g.table()
		s := g.kw("UPDATE") + " " + t.Table + " " + g.kw("SET") + " " + g.r.Pick(g.cols) + " = " + g.renderExpr(g.Expr(1), 1)
		if g.r.Chance(80) {
			s += " " + g.kw("WHERE") + " " + g.renderExpr(g.Expr(2), 1)
		}
		return s
	case 2:
		t := g.table()
		s := g.kw("DELETE") + " " + g.kw("FROM") + " " + t.Table
		if g.r.Chance(80) {
			s += " " + g.kw("WHERE") + " " + g.renderExpr(g.Expr(2), 1)
		}
		return s
	}
	return g.renderSelect(g.Query(g.MaxDepth - 1))
}
