package main

import (
	"context"
	"encoding/json"
	"fmt"
	"github.com/ajitpratap0/GoSQLX/pkg/sql/parser"
	"os"
	"os/exec"
	"path/filepath"
	"runtime"
	"sort"
	"strings"
	"sync"
	"time"

	"github.com/ajitpratap0/GoSQLX/pkg/config"
	"github.com/ajitpratap0/GoSQLX/pkg/formatter"
	"github.com/ajitpratap0/GoSQLX/pkg/gosqlx"
	"github.com/ajitpratap0/GoSQLX/pkg/linter"
	"github.com/ajitpratap0/GoSQLX/pkg/linter/rules/keywords"
	"github.com/ajitpratap0/GoSQLX/pkg/linter/rules/whitespace"
	"github.com/ajitpratap0/GoSQLX/pkg/metrics"
	"github.com/ajitpratap0/GoSQLX/pkg/sql/ast"
	sqlkeywords "github.com/ajitpratap0/GoSQLX/pkg/sql/keywords"
	"github.com/ajitpratap0/GoSQLX/pkg/sql/security"
	"github.com/ajitpratap0/GoSQLX/pkg/sql/tokenizer"
)

func init() {
	props["C10"] = runC10
	props["C10R"] = runC10Workload
	props["C10C"] = runC10Cold
}

// runC10Cold (run in a fresh race-built process): the very first use of every entry point happens concurrently — the
// lazily built tables (scanner patterns, keyword sets, pools) are initialised under contention; each answer is then
// compared with what the same call returns once everything is quiet.
func runC10Cold(c *runCtx) {
	res := c.res
	ops := c10ops()
	inputs := []string{"SELECT a FROM t WHERE 1=1 OR 'a'='a' UNION SELECT password FROM users -- x", "SELECT SLEEP(5); DROP TABLE t", "select  a   from t  \n",
		"SELECT a, COUNT(*) FROM t JOIN u ON t.i = u.i WHERE b IN (SELECT 1) GROUP BY a ORDER BY a LIMIT 3", "; SELECT 1", "SELECT a FROM t LIMIT 5, 10", "SELECT 'unterminated"}
	type ans struct {
		op, in int
		got    string
	}
	var mu sync.Mutex
	var got []ans
	var wg sync.WaitGroup
	start := make(chan struct{})
	for rep := 0; rep < 3; rep++ {
		for oi := range ops {
			for ii := range inputs {
				wg.Add(1)
				go func(oi, ii int) {
					defer wg.Done()
					<-start
					if (oi+ii)%2 == 1 {
						runtime.Gosched()
					}
					g := ops[oi].f(inputs[ii])
					mu.Lock()
					got = append(got, ans{oi, ii, g})
					mu.Unlock()
				}(oi, ii)
			}
		}
	}
	close(start)
	wg.Wait()
	for _, a := range got {
		res.count(fmt.Sprintf("cold|%d|%d", a.op, a.in), true)
		if ops[a.op].name == "stats" || ops[a.op].name == "configure-pooled" {
			continue
		}
		if alone := ops[a.op].f(inputs[a.in]); alone != a.got {
			res.fail("cold-start-result-differs:"+ops[a.op].name, "a call made while the library was being used for the first time by many goroutines returned something else than when run alone",
				map[string]any{"op": ops[a.op].name, "input": inputs[a.in]}, map[string]any{"concurrent": truncate(a.got, 300), "alone": truncate(alone, 300)})
		}
	}
}

// runC10: builds the harness with the race detector and runs the concurrent workload in it.
func runC10(c *runCtx) {
	res := c.res
	res.Rule = "a race-detector build of the harness runs N in {2, 8, 4*cores} goroutines doing random mixes of tokenize/parse/format/extract/scan/lint/GetStats over a shared workload; every call's canonical result is compared with a sequential oracle table; metrics totals after quiescence are compared with the totals of the same operations run sequentially; first-sample rounds (Reset, barrier, concurrent first records of distinct sizes) check min/max; data-race reports are parsed from the race build's stderr (distinct = distinct (operation, input) pairs executed concurrently)"
	raceBin := verifDir + "/.bin/vx-race"
	cmd := exec.Command("go", "build", "-race", "-tags", "verif", "-o", raceBin, "./cmd/vx")
	cmd.Dir = verifDir + "/harness"
	cmd.Env = append(os.Environ(), "GOFLAGS=-mod=mod", "GOPROXY=off", "GOSUMDB=off", "GOTOOLCHAIN=local", "CGO_ENABLED=1")
	if out, err := cmd.CombinedOutput(); err != nil {
		res.corrFail("race-build-failed", "go build -race of the harness against /repo failed: "+truncate(string(out), 800), nil, nil)
		// fall back to the plain binary so the sequential-oracle comparison still runs
		raceBin, _ = os.Executable()
	}
	outPath := verifDir + "/.work/C10R.result.json"
	os.Remove(outPath)
	run := exec.Command(raceBin, "run", "C10R", "--tier", c.tier, "--seed", fmt.Sprint(c.seed), "--out", outPath)
	run.Env = append(os.Environ(), "GORACE=halt_on_error=0 history_size=2")
	var stderr strings.Builder
	run.Stderr = &stderr
	done := make(chan error, 1)
	go func() { done <- run.Run() }()
	select {
	case err := <-done:
		if err != nil && !strings.Contains(stderr.String(), "DATA RACE") {
			res.fail("concurrent-workload-crashed", "the concurrent workload process failed: "+err.Error(), truncate(stderr.String(), 1500), nil)
		}
	case <-time.After(time.Duration(c.n(600, 3000)) * time.Second):
		_ = run.Process.Kill()
		res.fail("concurrent-workload-hang", "the concurrent workload did not finish", nil, nil)
	}
	// cold starts: fresh processes whose first calls are concurrent
	for k := 0; k < c.n(4, 20); k++ {
		coldOut := verifDir + "/.work/C10C.result.json"
		os.Remove(coldOut)
		cold := exec.Command(raceBin, "run", "C10C", "--tier", c.tier, "--seed", fmt.Sprint(c.seed+int64(k)), "--out", coldOut)
		cold.Env = append(os.Environ(), "GORACE=halt_on_error=0 history_size=2")
		var cerr strings.Builder
		cold.Stderr = &cerr
		_ = cold.Run()
		stderr.WriteString(cerr.String())
		if raw, err := os.ReadFile(coldOut); err == nil {
			var sub Result
			if json.Unmarshal(raw, &sub) == nil {
				res.Evaluations += sub.Evaluations
				res.Distinct += sub.Distinct
				for _, f := range sub.Failures {
					res.fail(f.Key, f.What, f.Witness, f.Detail)
				}
			}
		} else {
			res.fail("cold-start-crashed", "a process whose first calls were concurrent died", truncate(cerr.String(), 1500), nil)
		}
	}
	// data races
	races := strings.Split(stderr.String(), "WARNING: DATA RACE")
	for _, r := range races[1:] {
		// key by the first GoSQLX frame
		key := "unknown"
		for _, line := range strings.Split(r, "\n") {
			line = strings.TrimSpace(line)
			if strings.HasPrefix(line, "github.com/ajitpratap0/GoSQLX/") {
				key = strings.TrimPrefix(line, "github.com/ajitpratap0/GoSQLX/")
				if i := strings.Index(key, "("); i > 0 && !strings.HasPrefix(key[i:], "(*") {
					key = key[:i]
				}
				break
			}
		}
		res.fail("data-race:"+key, "the race detector reports a data race on library state", truncate(r, 1500), nil)
	}
	res.statN("race_reports", len(races)-1)
	if raw, err := os.ReadFile(outPath); err == nil {
		var sub Result
		if json.Unmarshal(raw, &sub) == nil {
			res.Evaluations += sub.Evaluations
			res.Distinct += sub.Distinct
			res.CorrCases += sub.CorrCases
			res.Samples = append(res.Samples, sub.Samples...)
			for _, f := range sub.Failures {
				res.fail(f.Key, f.What, f.Witness, f.Detail)
			}
			for k, v := range sub.Stats {
				res.Stats[k] += v
			}
		}
	} else {
		res.corrFail("concurrent-workload-no-result", "the concurrent workload wrote no result file", truncate(stderr.String(), 800), nil)
	}
}

type c10op struct {
	name string
	f    func(in string) string
}

func c10ops() []c10op {
	lint := linter.New(whitespace.NewTrailingWhitespaceRule(), whitespace.NewRedundantWhitespaceRule(), keywords.NewKeywordCaseRule(keywords.CaseUpper))
	return []c10op{
		{"tokenize", func(in string) string {
			t := tokenizer.GetTokenizer()
			defer tokenizer.PutTokenizer(t)
			toks, err := t.Tokenize([]byte(in))
			return fmtToks(toks) + "|" + fmtComments(t.Comments) + "|" + errCode(err)
		}},
		{"parse", func(in string) string {
			tree, err := gosqlx.Parse(in)
			if err != nil {
				return "ERR " + err.Error()
			}
			d := dumpNode(tree)
			ast.ReleaseAST(tree)
			return d
		}},
		{"parse-hold", func(in string) string {
			// hold the tree across a scheduling point before reading it
			tree, err := gosqlx.Parse(in)
			if err != nil {
				return "ERR " + err.Error()
			}
			runtime.Gosched()
			d := dumpNode(tree)
			runtime.Gosched()
			if d2 := dumpNode(tree); d2 != d {
				d = "CHANGED-WHILE-HELD " + d
			}
			ast.ReleaseAST(tree)
			return d
		}},
		{"parsectx-cancel", func(in string) string {
			// the context turns done at a poll index derived from the input
			k := len(in) % 7
			tree, err := gosqlx.ParseWithContext(&pollCtx{Context: context.Background(), k: k, err: context.Canceled}, in)
			if tree != nil {
				d := dumpNode(tree)
				ast.ReleaseAST(tree)
				return d
			}
			return errCode(err)
		}},
		{"parsectx", func(in string) string {
			tree, err := gosqlx.ParseWithContext(&pollCtx{Context: context.Background(), k: -1}, in)
			if err != nil {
				return "ERR " + err.Error()
			}
			d := dumpNode(tree)
			ast.ReleaseAST(tree)
			return d
		}},
		{"parsectx-yield", func(in string) string {
			// a context whose polls yield the processor: other goroutines run between a call's conversion and its parse
			tree, err := gosqlx.ParseWithContext(yieldCtx{context.Background()}, in)
			if err != nil {
				return "ERR " + err.Error()
			}
			d := dumpNode(tree)
			ast.ReleaseAST(tree)
			return d
		}},
		{"validate", func(in string) string { return errCode(gosqlx.Validate(in)) }},
		{"format", func(in string) string {
			s, err := gosqlx.Format(in, gosqlx.DefaultFormatOptions())
			return s + "|" + errCode(err)
		}},
		{"formatter", func(in string) string {
			s, err := formatter.New(formatter.Options{}).Format(in)
			return s + "|" + errCode(err)
		}},
		{"extract", func(in string) string {
			tree, err := gosqlx.Parse(in)
			if err != nil {
				return "ERR"
			}
			defer ast.ReleaseAST(tree)
			t, c, f := gosqlx.ExtractTables(tree), gosqlx.ExtractColumns(tree), gosqlx.ExtractFunctions(tree)
			sort.Strings(t)
			sort.Strings(c)
			sort.Strings(f)
			return fmt.Sprint(t, c, f)
		}},
		{"scan", func(in string) string {
			s := security.NewScanner()
			r := s.ScanSQL(in)
			out := fmt.Sprint(r.TotalCount, r.CriticalCount, r.HighCount, r.MediumCount, r.LowCount)
			tree, err := gosqlx.Parse(in)
			if err == nil {
				r2 := s.Scan(tree)
				out += fmt.Sprint("|", r2.TotalCount, r2.CriticalCount, r2.HighCount)
				ast.ReleaseAST(tree)
			}
			return out
		}},
		{"lint", func(in string) string {
			r := lint.LintString(in, "x.sql")
			return fmt.Sprint(len(r.Violations))
		}},
		{"configure-pooled", func(in string) string {
			// a holder that configures pooled instances and gives them back, with or without using them
			p := parser.GetParser()
			p.ApplyOptions(parser.WithStrictMode(), parser.WithDialect("mysql"))
			if len(in)%2 == 0 {
				t := tokenizer.GetTokenizer()
				if toks, err := t.Tokenize([]byte(in)); err == nil {
					if tree, err := p.ParseFromModelTokens(toks); err == nil {
						ast.ReleaseAST(tree)
					}
				}
				tokenizer.PutTokenizer(t)
			}
			parser.PutParser(p)
			return ""
		}},
		{"parser.Validate", func(in string) string { return errCode(parser.Validate(in)) }},
		{"parser.ParseBytes", func(in string) string {
			tree, err := parser.ParseBytes([]byte(in))
			if err != nil {
				return errCode(err)
			}
			d := dumpNode(tree)
			ast.ReleaseAST(tree)
			return d
		}},
		{"stats", func(in string) string { _ = metrics.GetStats(); return "" }},
		// instances configured for another dialect, used next to the default ones (these come last: the sequential oracle
		// of the operations above is taken before any dialect was ever selected in this process)
		{"tokenize-dialects", func(in string) string {
			var b strings.Builder
			for _, d := range sqlkeywords.AllDialects() {
				t, err := tokenizer.NewWithDialect(d)
				if err != nil {
					continue
				}
				toks, terr := t.Tokenize([]byte(in))
				b.WriteString(string(d) + ":" + fmtToks(toks) + "|" + errCode(terr) + ";")
			}
			return b.String()
		}},
		{"set-dialect-pooled", func(in string) string {
			t := tokenizer.GetTokenizer()
			defer tokenizer.PutTokenizer(t)
			ds := sqlkeywords.AllDialects()
			t.SetDialect(ds[len(in)%len(ds)])
			toks, err := t.Tokenize([]byte(in))
			return fmtToks(toks) + "|" + errCode(err)
		}},
		{"parse-dialects", func(in string) string {
			var b strings.Builder
			for _, d := range sqlkeywords.AllDialects() {
				tree, err := parser.ParseWithDialect(in, d)
				if err != nil {
					b.WriteString(string(d) + ":ERR " + errCode(err) + ";")
					continue
				}
				b.WriteString(string(d) + ":" + dumpNode(tree) + ";")
				ast.ReleaseAST(tree)
			}
			return b.String()
		}},
	}
}

type yieldCtx struct{ context.Context }

func (y yieldCtx) Err() error { runtime.Gosched(); return nil }

// errorsByTypeTotal: the per-type error breakdown must add up to the error totals
func errorsByTypeTotal(s metrics.Stats) (sum int64) {
	for _, v := range s.ErrorsByType {
		sum += v
	}
	return
}

func statsKey(s metrics.Stats) string {
	return fmt.Sprintf("tokOps=%d tokErr=%d parseOps=%d parseErr=%d stmts=%d bytes=%d min=%d max=%d",
		s.TokenizeOperations, s.TokenizeErrors, s.ParseOperations, s.ParseErrors, s.StatementsCreated, s.TotalBytesProcessed, s.MinQuerySize, s.MaxQuerySize)
}

// runC10Workload is executed inside the race-detector build.
func runC10Workload(c *runCtx) {
	res := c.res
	ops := c10ops()
	inputs := append([]string{}, builtinCorpus...)
	inputs = append(inputs, "; SELECT 1", "SELECT 1;; SELECT 2", "SELECT a FROM t LIMIT 10, 20", "SELECT `a` FROM `t`", "SELECT 'unterminated", "SELECT FROM", "SELECT a FROM t WHERE 1=1 OR 'a'='a'", "select  a   from t  ", "SELECT SLEEP(5)")
	g := newSQLGen(c.rng.Fork())
	for i := 0; i < c.n(60, 400); i++ {
		inputs = append(inputs, g.Statement())
	}
	// words that only some dialect reserves, used as plain names in default-dialect statements
	{
		seen := map[string]bool{}
		for _, d := range sqlkeywords.AllDialects() {
			for _, kw := range sqlkeywords.DialectKeywords(d) {
				w := strings.ToLower(kw.Word)
				if seen[w] || strings.ContainsAny(w, " ") {
					continue
				}
				seen[w] = true
				st := "SELECT " + w + " FROM t WHERE " + w + " = 1"
				if _, err := gosqlx.Parse(st); err == nil && len(seen) <= 400 {
					inputs = append(inputs, st)
				}
			}
		}
	}
	// sequential oracle
	oracle := make([][]string, len(ops))
	for oi, op := range ops {
		oracle[oi] = make([]string, len(inputs))
		for ii, in := range inputs {
			oracle[oi][ii] = op.f(in)
		}
	}
	type job struct{ op, in int }
	mkJobs := func(r *Rng, n int) []job {
		js := make([]job, n)
		for i := range js {
			js[i] = job{r.Intn(len(ops)), r.Intn(len(inputs))}
		}
		return js
	}
	cores := runtime.NumCPU()
	for _, N := range []int{2, 8, 4 * cores} {
		perG := c.n(300, 3000)
		jobs := make([][]job, N)
		for gi := range jobs {
			jobs[gi] = mkJobs(c.rng.Fork(), perG)
		}
		// sequential reference for the metrics totals
		metrics.Enable()
		metrics.Reset()
		for _, js := range jobs {
			for _, j := range js {
				ops[j.op].f(inputs[j.in])
			}
		}
		seqStats := statsKey(metrics.GetStats())
		metrics.Reset()
		var wg sync.WaitGroup
		var mu sync.Mutex
		for gi := 0; gi < N; gi++ {
			wg.Add(1)
			go func(js []job) {
				defer wg.Done()
				for _, j := range js {
					got := ops[j.op].f(inputs[j.in])
					if ops[j.op].name != "stats" && ops[j.op].name != "configure-pooled" && got != oracle[j.op][j.in] {
						mu.Lock()
						res.fail("concurrent-result-differs:"+ops[j.op].name, "a call made concurrently returned something else than when run alone",
							map[string]any{"op": ops[j.op].name, "input": inputs[j.in], "goroutines": N},
							map[string]any{"concurrent": truncate(got, 300), "alone": truncate(oracle[j.op][j.in], 300)})
						mu.Unlock()
					}
				}
			}(jobs[gi])
		}
		wg.Wait()
		conSnap := metrics.GetStats()
		conStats := statsKey(conSnap)
		if bt := errorsByTypeTotal(conSnap); bt != conSnap.TokenizeErrors+conSnap.ParseErrors && bt != conSnap.TokenizeErrors {
			res.fail("metrics-error-breakdown", "the per-type error counts do not add up to the error totals after a concurrent run",
				map[string]any{"goroutines": N}, map[string]any{"by_type_sum": bt, "tokenize_errors": conSnap.TokenizeErrors, "parse_errors": conSnap.ParseErrors})
		}
		for _, js := range jobs {
			for _, j := range js {
				res.count(fmt.Sprintf("%d|%d", j.op, j.in), true)
			}
		}
		res.CorrCases++
		if conStats != seqStats {
			res.fail("metrics-totals-differ", "metrics totals after the concurrent run differ from the totals of the same operations run sequentially",
				map[string]any{"goroutines": N, "ops_per_goroutine": perG}, map[string]any{"concurrent": conStats, "sequential": seqStats})
		}
		res.sample(map[string]any{"goroutines": N, "ops_per_goroutine": perG, "metrics": conStats})
	}
	// first-sample rounds: Reset, barrier, concurrent first records with distinct sizes
	rounds := c.n(3000, 30000)
	G := 8
	sizes := make([][]byte, G)
	for i := range sizes {
		sizes[i] = []byte("SELECT " + strings.Repeat("a", 3+7*i))
	}
	metrics.Enable()
	for r := 0; r < rounds; r++ {
		metrics.Reset()
		start := make(chan struct{})
		var wg sync.WaitGroup
		for gi := 0; gi < G; gi++ {
			wg.Add(1)
			go func(gi int) {
				defer wg.Done()
				t, _ := tokenizer.New()
				<-start
				_, _ = t.Tokenize(sizes[gi])
			}(gi)
		}
		close(start)
		wg.Wait()
		st := metrics.GetStats()
		res.Evaluations++
		if st.MinQuerySize != int64(len(sizes[0])) || st.MaxQuerySize != int64(len(sizes[G-1])) || st.TokenizeOperations != int64(G) {
			res.fail("metrics-minmax-lost-update", "after concurrent first samples the smallest/largest query size or the operation count is wrong",
				map[string]any{"round": r, "sizes": []int{len(sizes[0]), len(sizes[G-1])}},
				map[string]any{"min": st.MinQuerySize, "max": st.MaxQuerySize, "ops": st.TokenizeOperations})
			break
		}
	}
	// first occurrences of an error type recorded concurrently: none is lost
	for r := 0; r < c.n(1500, 15000); r++ {
		metrics.Reset()
		bad := []byte(fmt.Sprintf("SELECT 'never closed %d", r))
		start := make(chan struct{})
		var wg sync.WaitGroup
		for gi := 0; gi < G; gi++ {
			wg.Add(1)
			go func() {
				defer wg.Done()
				t, _ := tokenizer.New()
				<-start
				_, _ = t.Tokenize(bad)
			}()
		}
		close(start)
		wg.Wait()
		st := metrics.GetStats()
		res.Evaluations++
		if st.TokenizeErrors != int64(G) || errorsByTypeTotal(st) != int64(G) {
			res.fail("metrics-error-breakdown", "after concurrent first occurrences of an error the totals or the per-type breakdown lost updates",
				map[string]any{"round": r, "goroutines": G}, map[string]any{"tokenize_errors": st.TokenizeErrors, "by_type_sum": errorsByTypeTotal(st)})
			break
		}
	}
	// every tokenizer run is recorded with the size of the text it was given — accepted, lexically wrong, or refused for
	// its size alike — through a fresh tokenizer and through pooled ones reused across the
	// sequence, alone and from several goroutines: operations, bytes, smallest and largest size are exact
	{
		big := make([]byte, tokenizer.MaxInputSize+1)
		for i := range big {
			big[i] = ' '
		}
		copy(big, "SELECT 1")
		type step struct {
			in  []byte
			ctx context.Context // nil: Tokenize
		}
		seq := []step{{[]byte("SELECT a, b FROM t"), nil}, {big, nil}, {[]byte("SELECT 'never closed"), nil}, {[]byte("x"), nil}, {big, context.Background()},
			{[]byte("SELECT a FROM t WHERE b = 1 AND c = 2"), context.Background()}, {[]byte("SELECT \"q"), context.Background()}, {[]byte("SELECT 1;"), nil}}
		var wantBytes, wantMin, wantMax int64 = 0, -1, 0
		for _, st := range seq {
			n := int64(len(st.in))
			wantBytes += n
			if wantMin < 0 || n < wantMin {
				wantMin = n
			}
			if n > wantMax {
				wantMax = n
			}
		}
		runSeq := func(pooled bool) {
			var tk *tokenizer.Tokenizer
			for _, st := range seq {
				if pooled {
					tk = tokenizer.GetTokenizer()
				} else {
					tk, _ = tokenizer.New()
				}
				if st.ctx == nil {
					_, _ = tk.Tokenize(st.in)
				} else {
					_, _ = tk.TokenizeContext(st.ctx, st.in)
				}
				if pooled {
					tokenizer.PutTokenizer(tk)
				}
			}
		}
		for _, pooled := range []bool{false, true} {
			for _, G := range []int{1, 6} {
				metrics.Reset()
				var wg sync.WaitGroup
				for gi := 0; gi < G; gi++ {
					wg.Add(1)
					go func() {
						defer wg.Done()
						for k := 0; k < 3; k++ {
							runSeq(pooled)
						}
					}()
				}
				wg.Wait()
				st := metrics.GetStats()
				res.Evaluations++
				runs := int64(G * 3)
				if st.TokenizeOperations != runs*int64(len(seq)) || st.TotalBytesProcessed != runs*wantBytes || st.MinQuerySize != wantMin || st.MaxQuerySize != wantMax {
					res.fail("metrics-sizes-inexact", "after a known sequence of tokenizer runs (accepted, wrong, over the size limit) the recorded operations / bytes / smallest / largest size are not those of the texts given",
						map[string]any{"pooled_tokenizers": pooled, "goroutines": G, "sizes": []int{18, len(big), 20, 1, len(big), 37, 9, 9}},
						map[string]any{"ops": st.TokenizeOperations, "want_ops": runs * int64(len(seq)), "bytes": st.TotalBytesProcessed, "want_bytes": runs * wantBytes, "min": st.MinQuerySize, "want_min": wantMin, "max": st.MaxQuerySize, "want_max": wantMax})
				}
			}
		}
	}
	metrics.Disable()
	c10ConfigCache(c)
}

// c10ConfigCache: the shared configuration cache under concurrent loads while entries go stale (files rewritten between
// rounds, while nobody reads), get evicted (more files than the cache holds), are cleared and counted: every load returns
// the value that is in the file now, and the race detector stays silent
func c10ConfigCache(c *runCtx) {
	res := c.res
	dir, err := os.MkdirTemp("", "vx-c10-config-")
	if err != nil {
		return
	}
	defer os.RemoveAll(dir)
	const nFiles = 8
	paths := make([]string, nFiles)
	cur := make([]int, nFiles)
	base := time.Now().Add(-time.Hour)
	write := func(i, val, gen int) {
		ext := []string{".json", ".yaml"}[i%2]
		paths[i] = filepath.Join(dir, fmt.Sprintf("c%d%s", i, ext))
		body := fmt.Sprintf("{\"format\": {\"indent\": %d}}", val)
		if ext == ".yaml" {
			body = fmt.Sprintf("format:\n  indent: %d\n", val)
		}
		_ = os.WriteFile(paths[i], []byte(body), 0o644)
		_ = os.Chtimes(paths[i], base.Add(time.Duration(gen)*time.Second), base.Add(time.Duration(gen)*time.Second))
		cur[i] = val
	}
	for i := 0; i < nFiles; i++ {
		write(i, 1+i, 0)
	}
	// filler files to push the cache past its capacity now and then
	var fillers []string
	for i := 0; i < 140; i++ {
		pth := filepath.Join(dir, fmt.Sprintf("filler%03d.json", i))
		_ = os.WriteFile(pth, []byte("{\"format\": {\"indent\": 3}}"), 0o644)
		fillers = append(fillers, pth)
	}
	config.ClearConfigCache()
	const G = 16
	for round := 1; round <= c.n(40, 300); round++ {
		for i := 0; i < nFiles; i++ {
			if (i+round)%2 == 0 {
				write(i, 1+(cur[i]+round)%9, round)
			}
		}
		start := make(chan struct{})
		var wg sync.WaitGroup
		var mu sync.Mutex
		bad := ""
		for gi := 0; gi < G; gi++ {
			wg.Add(1)
			go func(gi int) {
				defer wg.Done()
				<-start
				for k := 0; k < nFiles; k++ {
					i := (k + gi) % nFiles
					cfg, err := config.LoadFromFileCached(paths[i])
					if err != nil || cfg == nil || cfg.Format.Indent != cur[i] {
						mu.Lock()
						got := -1
						if cfg != nil {
							got = cfg.Format.Indent
						}
						bad = fmt.Sprintf("file %d: got indent %d (err %v), the file says %d", i, got, err, cur[i])
						mu.Unlock()
					}
					switch {
					case gi == 3 && round%7 == 0:
						_ = config.GetConfigCacheStats()
					case gi == 5 && round%11 == 0 && k == 4:
						config.ClearConfigCache()
					case gi >= 12 && round%5 == 0:
						_, _ = config.LoadFromFileCached(fillers[(gi*nFiles+k+round)%len(fillers)])
					}
				}
			}(gi)
		}
		close(start)
		wg.Wait()
		res.Evaluations++
		if bad != "" {
			res.fail("concurrent-result-differs:config-cache", "a cached configuration load made concurrently returned something else than the file holds", map[string]any{"round": round, "goroutines": G}, map[string]any{"what": bad})
			break
		}
	}
	res.count("config-cache-rounds", true)
}
