package main

func extractRest11(l *loaded, genDir, jsonDir string) error { return nil }
