package main

import (
	"fmt"
	"go/ast"
	"go/constant"
	"go/token"
	"path/filepath"
	"sort"
	"strconv"
	"strings"
)

// extractLexTables reads pkg/sql/tokenizer and pkg/models:
//   - keywordTokenTypes, compoundKeywordStarts, compoundKeywordTypes (map literals, constants resolved)
//   - the operator table of readPunctuation: every `models.Token{Type: C, Value: "<lit>"}` returned there
//   - the numeric value of every models.TokenType constant
func extractRest11(l *loaded, genDir, jsonDir string) error {
	tp := l.pkgs["pkg/sql/tokenizer"]
	mp := l.pkgs["pkg/models"]
	if tp == nil || mp == nil {
		return fmt.Errorf("tokenizer/models not loaded")
	}
	constInt := func(e ast.Expr) (int64, bool) {
		if tv, ok := tp.TypesInfo.Types[e]; ok && tv.Value != nil && tv.Value.Kind() == constant.Int {
			v, ok := constant.Int64Val(tv.Value)
			return v, ok
		}
		return 0, false
	}
	type kv struct {
		K string `json:"k"`
		V int64  `json:"v"`
	}
	maps := map[string][]kv{}
	var starts []string
	var ops []kv
	for _, f := range tp.Syntax {
		for _, d := range f.Decls {
			switch dd := d.(type) {
			case *ast.GenDecl:
				for _, sp := range dd.Specs {
					vs, ok := sp.(*ast.ValueSpec)
					if !ok {
						continue
					}
					for i, n := range vs.Names {
						if i >= len(vs.Values) {
							continue
						}
						cl, ok := vs.Values[i].(*ast.CompositeLit)
						if !ok {
							continue
						}
						switch n.Name {
						case "keywordTokenTypes", "compoundKeywordTypes":
							for _, e := range cl.Elts {
								kve := e.(*ast.KeyValueExpr)
								k, _ := strconv.Unquote(kve.Key.(*ast.BasicLit).Value)
								v, ok := constInt(kve.Value)
								if !ok {
									return fmt.Errorf("%s[%s]: value is not a constant", n.Name, k)
								}
								maps[n.Name] = append(maps[n.Name], kv{k, v})
							}
						case "compoundKeywordStarts":
							for _, e := range cl.Elts {
								kve := e.(*ast.KeyValueExpr)
								k, _ := strconv.Unquote(kve.Key.(*ast.BasicLit).Value)
								starts = append(starts, k)
							}
						}
					}
				}
			case *ast.FuncDecl:
				if dd.Name.Name != "readPunctuation" || dd.Body == nil {
					continue
				}
				ast.Inspect(dd.Body, func(n ast.Node) bool {
					cl, ok := n.(*ast.CompositeLit)
					if !ok {
						return true
					}
					sel, ok := cl.Type.(*ast.SelectorExpr)
					if !ok || sel.Sel.Name != "Token" {
						return true
					}
					var ty int64 = -1
					val, hasVal := "", false
					for _, e := range cl.Elts {
						kve, ok := e.(*ast.KeyValueExpr)
						if !ok {
							continue
						}
						switch kve.Key.(*ast.Ident).Name {
						case "Type":
							if v, ok := constInt(kve.Value); ok {
								ty = v
							}
						case "Value":
							if bl, ok := kve.Value.(*ast.BasicLit); ok && bl.Kind == token.STRING {
								val, _ = strconv.Unquote(bl.Value)
								hasVal = true
							}
						}
					}
					if ty >= 0 && hasVal {
						ops = append(ops, kv{val, ty})
					}
					return true
				})
			}
		}
	}
	for k := range maps {
		sort.Slice(maps[k], func(i, j int) bool { return maps[k][i].K < maps[k][j].K })
	}
	sort.Strings(starts)
	sort.Slice(ops, func(i, j int) bool { return ops[i].K < ops[j].K })
	// de-duplicate the operator table ("$" is returned from several places)
	var ops2 []kv
	for i, o := range ops {
		if i > 0 && ops[i-1] == o {
			continue
		}
		ops2 = append(ops2, o)
	}
	ops = ops2
	// token type constants
	var tts []kv
	scope := mp.Types.Scope()
	for _, name := range scope.Names() {
		if !strings.HasPrefix(name, "TokenType") {
			continue
		}
		obj := scope.Lookup(name)
		c, ok := obj.(interface{ Val() constant.Value })
		if !ok {
			continue
		}
		if v, ok := constant.Int64Val(c.Val()); ok {
			tts = append(tts, kv{name, v})
		}
	}
	if err := writeJSON(jsonDir+"/lex_tables.json", map[string]any{"keywords": maps["keywordTokenTypes"], "compound_types": maps["compoundKeywordTypes"], "compound_starts": starts, "operators": ops, "token_types": tts}); err != nil {
		return err
	}
	var b strings.Builder
	b.WriteString(genHeader)
	b.WriteString("namespace GoSQLXModel.Gen.Lex\n\n")
	emitKV := func(name string, xs []kv, chunk int) {
		// chunked to keep each literal small
		var parts []string
		for i := 0; i < len(xs); i += chunk {
			j := i + chunk
			if j > len(xs) {
				j = len(xs)
			}
			pn := fmt.Sprintf("%s_%d", name, i/chunk)
			fmt.Fprintf(&b, "def %s : List (String × Nat) := [", pn)
			for k, e := range xs[i:j] {
				if k > 0 {
					b.WriteString(", ")
				}
				fmt.Fprintf(&b, "(%s, %d)", leanStr(e.K), e.V)
			}
			b.WriteString("]\n")
			parts = append(parts, pn)
		}
		if len(parts) == 0 {
			fmt.Fprintf(&b, "def %s : List (String × Nat) := []\n\n", name)
			return
		}
		fmt.Fprintf(&b, "def %s : List (String × Nat) := %s\n\n", name, strings.Join(parts, " ++ "))
	}
	emitKV("keywordTypes", maps["keywordTokenTypes"], 60)
	emitKV("compoundTypes", maps["compoundKeywordTypes"], 60)
	fmt.Fprintf(&b, "def compoundStarts : List String := %s\n\n", leanStrList(starts))
	b.WriteString("/-- every `models.Token{Type: c, Value: \"lit\"}` returned by readPunctuation -/\n")
	emitKV("operators", ops, 60)
	emitKV("tokenTypes", tts, 60)
	for _, n := range []string{"EOF", "Identifier", "Number", "Placeholder", "String", "SingleQuotedString", "DoubleQuotedString",
		"TripleSingleQuotedString", "TripleDoubleQuotedString", "DollarQuotedString", "Keyword"} {
		for _, t := range tts {
			if t.K == "TokenType"+n {
				fmt.Fprintf(&b, "def tt%s : Nat := %d\n", n, t.V)
			}
		}
	}
	b.WriteString("\nend GoSQLXModel.Gen.Lex\n")
	if _, err := writeIfChanged(filepath.Join(genDir, "LexTables.lean"), []byte(b.String())); err != nil {
		return err
	}
	return extractRest12(l, genDir, jsonDir)
}
