package main

import (
	"context"
	"encoding/binary"
	"encoding/hex"
	"encoding/json"
	"fmt"
	"hash/fnv"
	"os"
	"path/filepath"
	"regexp"
	"sort"
	"strings"
	"time"

	"github.com/ajitpratap0/GoSQLX/pkg/gosqlx"
	"github.com/ajitpratap0/GoSQLX/pkg/metrics"
	"github.com/ajitpratap0/GoSQLX/pkg/models"
	"github.com/ajitpratap0/GoSQLX/pkg/sql/parser"
	"github.com/ajitpratap0/GoSQLX/pkg/sql/token"
	"github.com/ajitpratap0/GoSQLX/pkg/sql/tokenizer"
)

func init() {
	props["C01"] = runC01
	// child side: run every byte-string entry point on one input; answer "ok" or "<entry>:panic …"
	childExtras["all"] = func(data []byte) string {
		names := make([]string, 0, len(entryPoints))
		for n := range entryPoints {
			names = append(names, n)
		}
		sort.Strings(names)
		// every other input runs with metrics collection switched on (the library then also reports each run, and each
		// error, to the metrics package)
		h := fnv.New32a()
		_, _ = h.Write(data)
		if h.Sum32()%2 == 0 {
			metrics.Enable()
			defer metrics.Disable()
		}
		for _, n := range names {
			if ans := runEntry(n, data); strings.HasPrefix(ans, "panic") {
				return n + ":" + ans
			}
		}
		return "ok"
	}
	// child side: a token sequence offered to the low-level parser API, every variant
	childExtras["toks"] = func(data []byte) string {
		toks := decodeToks(data)
		for _, v := range tokVariants {
			if ans := runToks(v, toks); strings.HasPrefix(ans, "panic") {
				return v + ":" + ans
			}
		}
		return "ok"
	}
	for _, v := range tokVariants {
		v := v
		childExtras["toks."+v] = func(data []byte) string { return runToks(v, decodeToks(data)) }
	}
}

var tokVariants = []string{"parse", "parsectx", "strict", "recovery", "positions", "positions-strict", "positions-empty-map", "model", "model-positions", "model-ctx"}

func runToks(variant string, toks []token.Token) (ans string) {
	defer func() {
		if r := recover(); r != nil {
			ans = "panic " + strings.ReplaceAll(fmt.Sprint(r), "\n", " ")
		}
	}()
	cp := append([]token.Token{}, toks...)
	switch variant {
	case "parse":
		p := parser.NewParser()
		defer p.Release()
		_, err := p.Parse(cp)
		return errCode(err)
	case "parsectx":
		p := parser.NewParser()
		defer p.Release()
		_, err := p.ParseContext(context.Background(), cp)
		return errCode(err)
	case "strict":
		p := parser.NewParser(parser.WithStrictMode())
		defer p.Release()
		_, err := p.Parse(cp)
		return errCode(err)
	case "positions", "positions-strict", "positions-empty-map", "model", "model-positions", "model-ctx":
		// the position-tracking and model-token entry points: mappings that are nil, empty (non-nil), shorter than the
		// tokens, or exact
		opts := []parser.ParserOption{}
		if variant == "positions-strict" {
			opts = append(opts, parser.WithStrictMode())
		}
		p := parser.NewParser(opts...)
		defer p.Release()
		switch variant {
		case "positions", "positions-strict":
			pm := make([]parser.TokenPosition, len(cp))
			_, err := p.ParseWithPositions(&parser.ConversionResult{Tokens: cp, PositionMapping: pm})
			return errCode(err)
		case "positions-empty-map":
			_, err := p.ParseWithPositions(&parser.ConversionResult{Tokens: cp, PositionMapping: []parser.TokenPosition{}})
			return errCode(err)
		}
		mt := make([]models.TokenWithSpan, 0, len(cp))
		for _, t := range cp {
			mt = append(mt, models.TokenWithSpan{Token: models.Token{Type: t.Type, Value: t.Literal}})
		}
		if len(cp) == 0 && variant == "model" {
			mt = nil
		}
		var err error
		switch variant {
		case "model":
			_, err = p.ParseFromModelTokens(mt)
		case "model-positions":
			_, err = p.ParseFromModelTokensWithPositions(mt)
		default:
			_, err = p.ParseContextFromModelTokens(context.Background(), mt)
		}
		return errCode(err)
	default:
		p := parser.NewParser()
		defer p.Release()
		_, errs := p.ParseWithRecovery(cp)
		if len(errs) > 0 {
			return errCode(errs[0])
		}
		return "ok"
	}
}

// token sequences travel as: repeated (int32 type, int32 len, literal bytes)
func encodeToks(ts []token.Token) []byte {
	var b []byte
	for _, t := range ts {
		var h [8]byte
		binary.LittleEndian.PutUint32(h[:4], uint32(int32(t.Type)))
		binary.LittleEndian.PutUint32(h[4:], uint32(len(t.Literal)))
		b = append(b, h[:]...)
		b = append(b, t.Literal...)
	}
	return b
}

func decodeToks(b []byte) []token.Token {
	var ts []token.Token
	for len(b) >= 8 {
		ty := int32(binary.LittleEndian.Uint32(b[:4]))
		n := int(binary.LittleEndian.Uint32(b[4:8]))
		b = b[8:]
		if n > len(b) {
			break
		}
		ts = append(ts, token.Token{Type: models.TokenType(ty), Literal: string(b[:n])})
		b = b[n:]
	}
	return ts
}

func runC01(c *runCtx) {
	res := c.res
	res.Rule = "every byte-string entry point (tokenize, all parse/validate variants incl. strict, dialect, positions, context, timeout; recovery; format, formatter, AST.SQL; extract; scan; inspect; lint with seven rules; every lint fixer with and without the violation list) on: random byte strings (valid UTF-8 or not), layout pieces (blank runs, line ends, quote / comment openers, invalid and cut UTF-8 next to code), reference lexeme sequences, generated statements, single-token corruptions, lexical garbage, deep/long shapes (NOT/paren/CASE/sub-query chains around the depth limit, 100k-term lists); and the low-level parser API (Parse, ParseContext, strict, ParseWithRecovery) on token sequences no tokenizer produces: statement tokens cut anywhere (no EOF), empty, EOF in the middle, Type-less tokens, random soups over the token vocabulary; each call runs in a child process with a timeout and must return a value or an error: no escaped panic, no fatal error, no hang (distinct = distinct inputs)"
	pool := newChildPool()
	defer pool.Close()
	names := make([]string, 0, len(entryPoints))
	for n := range entryPoints {
		names = append(names, n)
	}
	sort.Strings(names)
	drv := c.driver()
	// the run keeps to a time budget: when many inputs hang (each costs its timeout), the inputs tried so far carry the report
	deadline := c.start.Add(time.Duration(c.n(1000, 6000)) * time.Second)
	hangs := 0
	run := func(kind string, data []byte, timeout time.Duration) {
		if time.Now().After(deadline) || hangs >= 12 {
			res.stat("inputs-not-tried-budget-exhausted")
			return
		}
		res.count(kind+":"+string(data), true)
		res.stat("inputs:" + kind)
		// tie of the tokenizer totality theorem: model and implementation agree on this input
		if drv != nil && len(data) < 20000 {
			if ans, err := drv.Ask("lex", hex.EncodeToString(data)); err == nil {
				res.CorrCases++
				if real, _, _, _ := lexReal(data); !sameLex(ans, real) {
					res.corrFail("lex-model", "Lean tokenizer differs from Tokenizer.Tokenize", map[string]any{"input_hex": hex.EncodeToString(data)}, map[string]any{"model": clip(ans, 300), "real": clip(real, 300)})
				}
			}
		}
		ans := pool.Run("x:all", data, timeout)
		if ans == "ok" {
			return
		}
		wit := map[string]any{"kind": kind, "input": clip(string(data), 400), "len": len(data)}
		if len(data) <= 4096 {
			wit["input_hex"] = hex.EncodeToString(data)
		}
		if ans == "crash" || ans == "hang" {
			if ans == "hang" {
				hangs++
			}
			// which entry point?
			for _, n := range names {
				a := pool.Run(n, data, timeout)
				if a == "crash" || a == "hang" || strings.HasPrefix(a, "panic") {
					res.fail(strings.Fields(a)[0]+":"+n, "an entry point does not return on this input", wit, map[string]any{"entry": n, "outcome": a})
					return
				}
			}
			res.fail(ans+":unattributed", "the run over all entry points died, no single entry point reproduces it", wit, nil)
			return
		}
		entry := strings.SplitN(ans, ":", 2)[0]
		res.fail("panic:"+entry, "a panic escapes an entry point", wit, map[string]any{"entry": entry, "outcome": clip(ans, 300)})
	}
	rb := c.rng.Fork()
	// random bytes
	alphabet := []byte("ab_ 9.'\"`$@:-/*\n\\e+E<>=!#?|&~;,()[]\t\r%xyzSELECTFROMWHEREselectnotNOTcaseCASE01\x00\x7f\xc3\xa9\xe2\x80\x98\xe2\x80\x9c\xc2\xab\xf0\x9f\x98\x80\xff\xc0\xed\xa0\x80")
	for i := 0; i < c.n(1500, 60000); i++ {
		n := rb.Intn(40)
		buf := make([]byte, n)
		for k := range buf {
			if rb.Intn(8) == 0 {
				buf[k] = byte(rb.Intn(256))
			} else {
				buf[k] = alphabet[rb.Intn(len(alphabet))]
			}
		}
		run("bytes", buf, 20*time.Second)
	}
	// layout pieces: blank runs, line ends, quote and comment openers, invalid and cut UTF-8 next to code — what the
	// line-based linter rules and fixers, the formatter and the tokenizer's trivia loop look at
	layoutPieces := []string{"SELECT", "select", "From", "a", "b1", "1", ",", ";", "=", " ", "  ", "   ", "\t", " \t", "\t ", "\n", "\r\n", "\n\n\n", "\r", "'", "''", "'x'", "\"", "`",
		"--", "-- c", "/*", "*/", "/* c */", "\xff", "\x80", "\x80\x80", "\xc3", "\xe2\x82", "\xf0\x9f", "é", "名", "\\", "$$", "(", ")", "\x00"}
	for i := 0; i < c.n(2500, 60000); i++ {
		var sb strings.Builder
		for k := 1 + rb.Intn(10); k > 0; k-- {
			sb.WriteString(layoutPieces[rb.Intn(len(layoutPieces))])
		}
		run("layout-bytes", []byte(sb.String()), 20*time.Second)
	}
	// lexeme sequences
	lg := &lexGen{r: c.rng.Fork()}
	for i := 0; i < c.n(500, 20000); i++ {
		text, _, _, _ := lg.sequence(1 + lg.r.Intn(10))
		run("lexemes", []byte(text), 20*time.Second)
	}
	// statements, corruptions, truncations
	sg := newSQLGen(c.rng.Fork())
	for i := 0; i < c.n(400, 15000); i++ {
		sql := sg.Statement()
		run("statement", []byte(sql), 20*time.Second)
		for _, m := range corruptions(rb, sql, 2) {
			run("corruption", []byte(m), 20*time.Second)
		}
		if len(sql) > 3 {
			run("truncation", []byte(sql[:rb.Intn(len(sql))]), 20*time.Second)
		}
	}
	for _, s := range lexicalGarbage {
		run("garbage", []byte(s), 20*time.Second)
	}
	// a literal that ends in an unfinished escape or quote, at every alignment of the text in its allocation (the
	// child hands the entry points slices whose capacity is exactly their length)
	for _, tail := range []string{"'\\u41'", "'\\u4", "'\\u", "'\\x4'", "'\\x", "'\\U0001F60", "'\\0", "'\\", "'a\\", "\"\\u12\"", "$$a", "$t$ x $t", "E'\\u00'", "'\\N{", "X'4", "'\\u{1F600", "`a\\"} {
		for pad := 0; pad < 64; pad++ {
			if c.quick && pad%4 != 0 && pad > 20 {
				continue
			}
			run("escape-at-end", []byte(strings.Repeat(" ", pad)+"SELECT "+tail), 20*time.Second)
		}
	}
	for _, s := range []string{"SELECT INTERVAL 3", "SELECT INTERVAL", "SELECT CASE", "SELECT CAST(", "SELECT a FROM t WHERE", "WITH", "WITH x AS", "INSERT INTO", "MERGE INTO t USING",
		"SELECT * FROM t ORDER BY", "SELECT a FROM t GROUP BY GROUPING SETS (", "SELECT a OVER (", "CREATE TABLE t (", "ALTER TABLE t", "SELECT ARRAY[", "SELECT a[", "SELECT a::", "SELECT EXTRACT(",
		"SELECT SUBSTRING(a FROM", "SELECT a FROM t FETCH FIRST", "SELECT a FROM t FOR", "SELECT a NOT", "SELECT NOT", "SELECT -", "SELECT (", "(", ")", ";", ";;;", "SELECT 1;;SELECT 2", "EXPLAIN", "SELECT a FROM t TABLESAMPLE"} {
		run("cut-statement", []byte(s), 20*time.Second)
	}
	// every statement of the catalogue and the repository corpus cut after each word, alone and followed by a
	// token that often introduces a sub-production
	ddl := []string{
		"CREATE TABLE s.t (id INT PRIMARY KEY, name VARCHAR(10) NOT NULL DEFAULT 'x', CONSTRAINT c UNIQUE (name), FOREIGN KEY (id) REFERENCES u (id) ON DELETE CASCADE)",
		"CREATE TABLE IF NOT EXISTS t (a INT) PARTITION BY RANGE (a)", "CREATE INDEX CONCURRENTLY i ON s.t USING btree (a DESC, b) WHERE a > 1", "CREATE UNIQUE INDEX i ON t (a)",
		"CREATE OR REPLACE VIEW v (a, b) AS SELECT a, b FROM t", "CREATE MATERIALIZED VIEW IF NOT EXISTS mv AS SELECT a FROM t WITH NO DATA", "REFRESH MATERIALIZED VIEW CONCURRENTLY mv",
		"ALTER TABLE s.t ADD COLUMN c INT NOT NULL", "ALTER TABLE t DROP COLUMN IF EXISTS c CASCADE", "ALTER TABLE t RENAME TO s.u", "ALTER TABLE t RENAME COLUMN a TO b", "ALTER TABLE t ALTER COLUMN a SET DEFAULT 1",
		"ALTER TABLE t ADD CONSTRAINT c CHECK (a > 0)", "ALTER TABLE t DROP CONSTRAINT c", "DROP TABLE IF EXISTS s.t, u CASCADE", "DROP INDEX i", "DROP VIEW v", "TRUNCATE TABLE s.t, u RESTART IDENTITY CASCADE",
		"MERGE INTO t a USING u b ON a.i = b.i WHEN MATCHED AND b.x > 1 THEN UPDATE SET c = b.c WHEN NOT MATCHED THEN INSERT (c) VALUES (b.c) WHEN NOT MATCHED BY SOURCE THEN DELETE",
		"INSERT INTO t (a) VALUES (1) ON CONFLICT ON CONSTRAINT c DO NOTHING", "INSERT INTO t (a) VALUES (1) ON DUPLICATE KEY UPDATE a = 2", "REPLACE INTO t (a) VALUES (1)",
		"SELECT a FROM t FETCH FIRST 5 ROWS WITH TIES", "SELECT a FROM t FOR UPDATE OF t NOWAIT", "SELECT a FROM t FOR SHARE SKIP LOCKED", "SELECT DISTINCT ON (a) a FROM t",
		"SELECT a, SUM(b) OVER w FROM t WINDOW w AS (PARTITION BY a ORDER BY b ROWS BETWEEN 1 PRECEDING AND 1 FOLLOWING)", "SELECT LISTAGG(a, ',') WITHIN GROUP (ORDER BY a) FROM t",
		"SELECT a FROM t GROUP BY CUBE (a, b), ROLLUP (c), GROUPING SETS ((a), ())", "SELECT ARRAY[1, 2][1], a[1:2], ROW(1, 2), INTERVAL '1' DAY, a::int[], a -> 'k' ->> 'j', a @> b FROM t",
		"SELECT a FROM t TABLESAMPLE BERNOULLI (10)", "SELECT * FROM t PIVOT (SUM(a) FOR b IN ('x', 'y'))", "SELECT a FROM t MATCH_RECOGNIZE (PARTITION BY a)", "WITH RECURSIVE c (n) AS (SELECT 1 UNION ALL SELECT n + 1 FROM c) SELECT n FROM c",
		"SELECT MATCH (a, b) AGAINST ('x' IN BOOLEAN MODE) FROM t", "SELECT a FROM t WHERE a REGEXP 'x' AND b RLIKE 'y'", "DESCRIBE t", "SHOW TABLES", "EXPLAIN ANALYZE SELECT 1", "SET x = 1", "USE db",
		"SELECT a FROM t1 NATURAL JOIN t2 CROSS JOIN t3 FULL OUTER JOIN t4 USING (a, b)", "SELECT EXTRACT(YEAR FROM a), POSITION('x' IN a), SUBSTRING(a FROM 1 FOR 2), TRIM(BOTH 'x' FROM a), CAST(a AS DECIMAL(10, 2)) FROM t",
	}
	// words the grammar knows: the tokenizer's keyword table and every upper-case word literal of the parser package
	gwords := parserWords()
	res.statN("grammar_words", len(gwords))
	// search hints: when a loop of the parser fails the leave-at-end criterion (Props.C01.gen_parser_loops_leave_at_end),
	// the words its function tests for are tried after every cut
	var hintWords []string
	if raw, err := os.ReadFile(verifDir + "/gen/structure.json"); err == nil {
		var st struct {
			Loops []struct {
				Where string   `json:"where"`
				Class string   `json:"class"`
				Moves bool     `json:"moves"`
				Words []string `json:"words"`
			} `json:"parser_loops"`
		}
		if json.Unmarshal(raw, &st) == nil {
			for _, l := range st.Loops {
				if l.Class == "open" || !l.Moves {
					hintWords = append(hintWords, l.Words...)
					res.Notes = append(res.Notes, "loop failing the criterion: "+l.Where)
				}
			}
		}
	}
	cuts := 0
	hintBudget := 40000
	hintFailuresBefore := len(res.Failures)
	for _, stmt := range append(ddl, repoCorpus()...) {
		words := lexPieces.FindAllString(stmt, -1) // cut at every lexical boundary, not only at blanks
		if len(words) > 160 {
			words = words[:160]
		}
		for j := 1; j <= len(words); j++ {
			if c.quick && (j*7+len(words))%3 != 0 && j != len(words) && j != len(words)-1 {
				continue
			}
			prefix := strings.Join(words[:j], " ")
			run("cut", []byte(prefix), 20*time.Second)
			run("cut+", []byte(prefix+" "+rb.Pick([]string{".", "(", ",", "AS", "TO", "=", "'x'", "1", ")", "s.", "::", "[", "NOT", "*"})), 20*time.Second)
			run("cut.", []byte(prefix+"."), 20*time.Second)
			// … followed by a word of the grammar and nothing else: whatever production the word opens must cope with
			// the end of the input (also with an identifier or a quoted name after it)
			if hintBudget > 0 && len(res.Failures) == hintFailuresBefore {
				for _, w := range hintWords {
					run("cut+hint", []byte(prefix+" "+w), 20*time.Second)
					run("cut+hint+", []byte(prefix+" "+w+" x"), 20*time.Second)
					run("cut+hint+", []byte(prefix+" "+w+" \"C\""), 20*time.Second)
					hintBudget -= 3
				}
			}
			for k := c.n(3, 24); k > 0 && len(gwords) > 0; k-- {
				w := gwords[rb.Intn(len(gwords))]
				run("cut+word", []byte(prefix+" "+w), 20*time.Second)
				if k%3 == 0 {
					run("cut+word+", []byte(prefix+" "+w+" "+rb.Pick([]string{"x", "\"C\"", "(", "'s'", "1", ","})), 20*time.Second)
				}
			}
			cuts++
		}
	}
	// deep and long shapes
	for _, d := range []int{50, 99, 100, 101, 150, 2000, c.n(300000, 800000)} {
		run("deep-not", []byte("SELECT "+strings.Repeat("NOT ", d)+"a"), time.Minute)
		run("deep-paren", []byte("SELECT "+strings.Repeat("(", d)+"1"+strings.Repeat(")", d)), time.Minute)
		run("deep-subquery", []byte(strings.Repeat("SELECT (", d)+"1"+strings.Repeat(")", d)), time.Minute)
		run("deep-case", []byte("SELECT "+strings.Repeat("CASE WHEN ", d)+"1"+strings.Repeat(" THEN 1 END", d)), time.Minute)
		run("deep-minus", []byte("SELECT "+strings.Repeat("- ", d)+"1"), time.Minute)
		run("long-and", []byte("SELECT a FROM t WHERE a = 1"+strings.Repeat(" AND a = 1", d)), time.Minute)
		run("long-union", []byte("SELECT 1"+strings.Repeat(" UNION SELECT 1", d/10+1)), time.Minute)
		run("wide-list", []byte("SELECT a FROM t WHERE a IN (1"+strings.Repeat(",1", d)+")"), time.Minute)
		run("many-statements", []byte(strings.Repeat("SELECT 1;", d/4+1)), time.Minute)
		run("deep-comment", []byte("SELECT "+strings.Repeat("/* x */ ", d)+"1"), time.Minute)
	}
	// every nesting construct at depths the parser accepts (below its recursion limit): a statement of a kilobyte or two
	// that every entry point must get through in time — nothing may take a number of steps that doubles per level
	{
		stmtWrap := []string{"SELECT a FROM t WHERE a IN ({X})", "SELECT a FROM t WHERE a NOT IN ({X})", "SELECT a FROM t WHERE EXISTS ({X})", "SELECT a FROM t WHERE NOT EXISTS ({X})",
			"SELECT a FROM t WHERE a = ({X})", "SELECT a FROM t WHERE a > ANY ({X})", "SELECT a FROM t WHERE a < ALL ({X})", "SELECT a FROM ({X}) z", "WITH c AS ({X}) SELECT a FROM c",
			"SELECT ({X}) FROM t", "SELECT a FROM t JOIN ({X}) z ON z.a = t.a", "SELECT a FROM t, LATERAL ({X}) z", "SELECT a FROM t GROUP BY a HAVING MAX(b) IN ({X})", "SELECT a FROM t UNION ALL SELECT a FROM ({X}) z",
			"SELECT a FROM t ORDER BY ({X})", "SELECT CASE WHEN EXISTS ({X}) THEN 1 ELSE 0 END FROM t"}
		exprWrap := []string{"f({E})", "CAST({E} AS INT)", "CASE WHEN {E} = 1 THEN 1 ELSE 0 END", "CASE {E} WHEN 1 THEN 1 END", "COALESCE(1, {E})", "({E} + 1)", "({E}) BETWEEN 1 AND 2", "ARRAY[{E}]", "- {E}", "NOT {E}",
			"({E}) IS NULL", "EXTRACT(YEAR FROM {E})", "SUBSTRING({E} FROM 1 FOR 2)", "({E})::int", "({E})[1]", "({E} IN (1, 2))", "({E} LIKE 'x')", "SUM({E}) OVER (PARTITION BY b)", "({E}, 1)", "x || {E}"}
		nest := func(ws []string, hole, inner string, d int, pick func(int) int) string {
			out := inner
			for i := 0; i < d; i++ {
				out = strings.ReplaceAll(ws[pick(i)], hole, out)
			}
			return out
		}
		for _, d := range []int{6, 12, 18, 24, 30, 36, 42, 48} {
			for wi := range stmtWrap {
				wi := wi
				run("nest-statement", []byte(nest(stmtWrap, "{X}", "SELECT a FROM t WHERE b = 1", d, func(int) int { return wi })), time.Minute)
			}
			for wi := range exprWrap {
				wi := wi
				e := nest(exprWrap, "{E}", "a", d, func(int) int { return wi })
				run("nest-expression", []byte("SELECT "+e+" FROM t"), time.Minute)
				run("nest-expression", []byte("SELECT a FROM t WHERE "+e+" = 1"), time.Minute)
			}
			for k := 0; k < c.n(3, 12); k++ {
				run("nest-statement-mixed", []byte(nest(stmtWrap, "{X}", "SELECT a FROM t WHERE b = 1", d, func(int) int { return rb.Intn(len(stmtWrap)) })), time.Minute)
				e := nest(exprWrap, "{E}", "a", d, func(int) int { return rb.Intn(len(exprWrap)) })
				run("nest-expression-mixed", []byte("SELECT a FROM t WHERE "+e+" = 1"), time.Minute)
				// sub-queries inside expressions inside sub-queries
				x := "SELECT a FROM t WHERE b = 1"
				for i := 0; i < d/2; i++ {
					x = strings.ReplaceAll(stmtWrap[rb.Intn(10)], "{X}", x)
					x = strings.Replace(x, "SELECT a", "SELECT "+strings.ReplaceAll(exprWrap[rb.Intn(len(exprWrap))], "{E}", "a"), 1)
				}
				run("nest-both-mixed", []byte(x), time.Minute)
			}
		}
	}
	// token sequences for the low-level API
	vocab := map[string]token.Token{}
	var seqs [][]token.Token
	for i := 0; i < c.n(200, 3000); i++ {
		sql := sg.Statement()
		tk, _ := tokenizer.New()
		mt, err := tk.Tokenize([]byte(sql))
		if err != nil {
			continue
		}
		cr, err := parser.VerifConvert(mt)
		if err != nil {
			continue
		}
		ts := cr.Tokens
		seqs = append(seqs, ts)
		for _, t := range ts {
			vocab[fmt.Sprintf("%d/%s", t.Type, t.Literal)] = t
		}
	}
	var vs []token.Token
	var vk []string
	for k := range vocab {
		vk = append(vk, k)
	}
	sort.Strings(vk)
	for _, k := range vk {
		vs = append(vs, vocab[k])
	}
	runT := func(kind string, ts []token.Token) {
		data := encodeToks(ts)
		res.count("toks:"+kind+":"+string(data), true)
		res.stat("inputs:tokens-" + kind)
		ans := pool.Run("x:toks", data, 20*time.Second)
		if ans == "ok" {
			return
		}
		var lits []string
		for _, t := range ts {
			lits = append(lits, fmt.Sprintf("%d:%s", t.Type, t.Literal))
		}
		wit := map[string]any{"kind": kind, "tokens": clip(strings.Join(lits, " "), 600), "count": len(ts)}
		if ans == "crash" || ans == "hang" {
			for _, v := range tokVariants {
				a := pool.Run("x:toks."+v, data, 20*time.Second)
				if a == "crash" || a == "hang" || strings.HasPrefix(a, "panic") {
					res.fail(strings.Fields(a)[0]+":tokens-"+v+":"+kind, "the low-level parser does not return on this token sequence", wit, map[string]any{"variant": v, "outcome": a})
					return
				}
			}
			res.fail(ans+":tokens-unattributed", "the run over the parser variants died", wit, nil)
			return
		}
		res.fail("panic:tokens-"+strings.SplitN(ans, ":", 2)[0]+":"+kind, "a panic escapes the low-level parser", wit, map[string]any{"outcome": clip(ans, 300)})
	}
	runT("empty", nil)
	runT("only-eof", []token.Token{{Type: models.TokenTypeEOF}})
	for _, ts := range seqs {
		if len(ts) < 2 {
			continue
		}
		noEOF := ts[:len(ts)-1]
		runT("no-eof", noEOF)
		cut := rb.Intn(len(noEOF) + 1)
		runT("cut-no-eof", noEOF[:cut])
		runT("cut-with-eof", append(append([]token.Token{}, noEOF[:cut]...), token.Token{Type: models.TokenTypeEOF}))
		mid := append(append(append([]token.Token{}, noEOF[:cut]...), token.Token{Type: models.TokenTypeEOF}), noEOF[cut:]...)
		runT("eof-in-middle", mid)
		tl := append([]token.Token{}, ts...)
		for k := range tl {
			if rb.Intn(3) == 0 {
				tl[k].Type = 0
			}
		}
		runT("typeless", tl)
	}
	for i := 0; i < c.n(1500, 60000) && len(vs) > 0; i++ {
		n := 1 + rb.Intn(12)
		ts := make([]token.Token, n)
		for k := range ts {
			ts[k] = vs[rb.Intn(len(vs))]
		}
		if rb.Bool() {
			ts = append(ts, token.Token{Type: models.TokenTypeEOF})
		}
		runT("soup", ts)
	}
	_ = gosqlx.Validate
}

var lexPieces = regexp.MustCompile(`[A-Za-z_][A-Za-z0-9_]*|[0-9]+(?:\.[0-9]+)?|'(?:[^']|'')*'|"[^"]*"|` + "`[^`]*`" + `|::|<>|<=|>=|!=|\|\||->>|->|[^\s]`)

var parserWordRe = regexp.MustCompile(`"([A-Z][A-Z_]{1,24})"`)

// parserWords: the tokenizer's keywords (regenerated table) and the upper-case word literals of pkg/sql/parser
func parserWords() []string {
	seen := map[string]bool{}
	var t struct {
		Keywords []struct {
			Word string `json:"word"`
		} `json:"keywords"`
	}
	if raw, err := os.ReadFile(verifDir + "/gen/lex_tables.json"); err == nil {
		var generic map[string]any
		if json.Unmarshal(raw, &generic) == nil {
			if ks, ok := generic["keywords"].([]any); ok {
				for _, k := range ks {
					switch x := k.(type) {
					case []any:
						if len(x) > 0 {
							if w, ok := x[0].(string); ok {
								seen[w] = true
							}
						}
					case map[string]any:
						for _, v := range x {
							if w, ok := v.(string); ok && w == strings.ToUpper(w) {
								seen[w] = true
							}
						}
					}
				}
			}
		}
		_ = t
	}
	files, _ := filepath.Glob("/repo/pkg/sql/parser/*.go")
	for _, f := range files {
		if strings.HasSuffix(f, "_test.go") {
			continue
		}
		if raw, err := os.ReadFile(f); err == nil {
			for _, m := range parserWordRe.FindAllStringSubmatch(string(raw), -1) {
				seen[m[1]] = true
			}
		}
	}
	out := make([]string, 0, len(seen))
	for w := range seen {
		out = append(out, w)
	}
	sort.Strings(out)
	return out
}

func clip(s string, n int) string {
	if len(s) > n {
		return s[:n] + "…"
	}
	return s
}
