package main

import (
	"fmt"
	"go/ast"
	"go/constant"
	"go/token"
	"go/types"
	"path/filepath"
	"sort"
	"strconv"
	"strings"

	"golang.org/x/tools/go/packages"
)

// ErrorSite: one place where an error value is constructed in tokenizer / parser / gosqlx.
type ErrorSite struct {
	Pkg       string `json:"pkg"`
	Func      string `json:"func"`
	Kind      string `json:"kind"` // builder | builder-flatten | wrapW | flatten | bare | sentinel
	Code      string `json:"code"` // for builder kinds
	Callee    string `json:"callee"`
	Reachable bool   `json:"reachable"` // from the package's public entry points over the static intra-package call graph
	Pos       string `json:"pos"`
	Msg       string `json:"msg"` // literal prefix of the message / format (site identity that survives line shifts)
}

// CtxSite: a place where the error of a polled context is returned.
type CtxSite struct {
	Pkg     string `json:"pkg"`
	Func    string `json:"func"`
	Kind    string `json:"kind"`     // direct | wrapW | flatten | dropped
	OnError bool   `json:"on_error"` // nested inside an `if err != nil` block (catch-all after a failed callee)
	Pos     string `json:"pos"`
}

var errorIface = types.Universe.Lookup("error").Type().Underlying().(*types.Interface)

func isErrorType(t types.Type) bool {
	if t == nil {
		return false
	}
	return types.Implements(t, errorIface)
}

func builderCodes(l *loaded) map[string]string {
	p := l.pkgs["pkg/errors"]
	out := map[string]string{}
	if p == nil {
		return out
	}
	for _, f := range p.Syntax {
		for _, d := range f.Decls {
			fd, ok := d.(*ast.FuncDecl)
			if !ok || fd.Recv != nil || fd.Body == nil || !fd.Name.IsExported() {
				continue
			}
			ast.Inspect(fd.Body, func(n ast.Node) bool {
				if id, ok := n.(*ast.Ident); ok && strings.HasPrefix(id.Name, "ErrCode") && out[fd.Name.Name] == "" {
					if c, ok := p.TypesInfo.Uses[id].(*types.Const); ok {
						out[fd.Name.Name] = constant.StringVal(c.Val())
					}
				}
				return true
			})
		}
	}
	return out
}

func funcKey(fd *ast.FuncDecl) string {
	if fd.Recv != nil {
		return recvName(fd) + "." + fd.Name.Name
	}
	return fd.Name.Name
}

// reachableFuncs: static intra-package reachability from exported functions / exported methods
func reachableFuncs(p *packages.Package, roots func(fd *ast.FuncDecl) bool) map[string]bool {
	decls := map[string]*ast.FuncDecl{}
	byObj := map[types.Object]string{}
	for _, f := range p.Syntax {
		for _, d := range f.Decls {
			if fd, ok := d.(*ast.FuncDecl); ok && fd.Body != nil {
				k := funcKey(fd)
				decls[k] = fd
				if o := p.TypesInfo.Defs[fd.Name]; o != nil {
					byObj[o] = k
				}
			}
		}
	}
	adj := map[string][]string{}
	for k, fd := range decls {
		ast.Inspect(fd.Body, func(n ast.Node) bool {
			var id *ast.Ident
			switch x := n.(type) {
			case *ast.SelectorExpr:
				id = x.Sel
			case *ast.Ident:
				id = x
			default:
				return true
			}
			if o := p.TypesInfo.Uses[id]; o != nil {
				if callee, ok := byObj[o]; ok {
					adj[k] = append(adj[k], callee)
				}
			}
			return true
		})
	}
	seen := map[string]bool{}
	var stack []string
	for k, fd := range decls {
		if roots(fd) {
			stack = append(stack, k)
		}
	}
	// package-level initialisers (var x = f()) also run
	for len(stack) > 0 {
		k := stack[len(stack)-1]
		stack = stack[:len(stack)-1]
		if seen[k] {
			continue
		}
		seen[k] = true
		stack = append(stack, adj[k]...)
	}
	return seen
}

func extractErrorSites(l *loaded) ([]ErrorSite, []CtxSite, error) {
	codes := builderCodes(l)
	var sites []ErrorSite
	var ctxSites []CtxSite
	pkgs := []struct {
		key   string
		roots func(fd *ast.FuncDecl) bool
	}{
		{"pkg/sql/tokenizer", func(fd *ast.FuncDecl) bool {
			return fd.Recv != nil && recvName(fd) == "Tokenizer" && (fd.Name.Name == "Tokenize" || fd.Name.Name == "TokenizeContext")
		}},
		{"pkg/sql/parser", func(fd *ast.FuncDecl) bool {
			return fd.Name.IsExported() && (fd.Recv == nil || recvName(fd) == "Parser")
		}},
		{"pkg/gosqlx", func(fd *ast.FuncDecl) bool { return fd.Name.IsExported() && fd.Recv == nil }},
	}
	for _, pk := range pkgs {
		p := l.pkgs[pk.key]
		if p == nil {
			return nil, nil, fmt.Errorf("%s not loaded", pk.key)
		}
		reach := reachableFuncs(p, pk.roots)
		for _, f := range p.Syntax {
			// package-level sentinels
			for _, d := range f.Decls {
				gd, ok := d.(*ast.GenDecl)
				if !ok || gd.Tok != token.VAR {
					continue
				}
				for _, sp := range gd.Specs {
					vs := sp.(*ast.ValueSpec)
					for i, v := range vs.Values {
						if ce, ok := v.(*ast.CallExpr); ok && isStdCall(p, ce, "errors", "New") && i < len(vs.Names) {
							pos := l.fset.Position(ce.Pos())
							sites = append(sites, ErrorSite{pk.key, vs.Names[i].Name, "sentinel", "", "errors.New", true,
								fmt.Sprintf("%s:%d", filepath.Base(pos.Filename), pos.Line), litPrefix(ce)})
						}
					}
				}
			}
			for _, d := range f.Decls {
				fd, ok := d.(*ast.FuncDecl)
				if !ok || fd.Body == nil {
					continue
				}
				fk := funcKey(fd)
				ast.Inspect(fd.Body, func(n ast.Node) bool {
					ce, ok := n.(*ast.CallExpr)
					if !ok {
						return true
					}
					pos := l.fset.Position(ce.Pos())
					ps := fmt.Sprintf("%s:%d", filepath.Base(pos.Filename), pos.Line)
					if se, ok := ce.Fun.(*ast.SelectorExpr); ok {
						if fn, ok := p.TypesInfo.Uses[se.Sel].(*types.Func); ok && fn.Pkg() != nil {
							switch {
							case strings.HasSuffix(fn.Pkg().Path(), "GoSQLX/pkg/errors"):
								code := codes[fn.Name()]
								if fn.Name() == "NewError" || fn.Name() == "WrapError" {
									if len(ce.Args) > 0 {
										if tv, ok := p.TypesInfo.Types[ce.Args[0]]; ok && tv.Value != nil {
											code = constant.StringVal(tv.Value)
										}
									}
								}
								if code == "" {
									return true // helper such as IsCode / GetCode
								}
								kind := "builder"
								for _, a := range ce.Args {
									if inner, ok := a.(*ast.CallExpr); ok && isStdCall(p, inner, "fmt", "Sprintf") {
										for _, ia := range inner.Args[1:] {
											if isErrorType(p.TypesInfo.TypeOf(ia)) {
												kind = "builder-flatten"
											}
										}
									}
								}
								sites = append(sites, ErrorSite{pk.key, fk, kind, code, fn.Name(), reach[fk], ps, litPrefix(ce)})
							case fn.Pkg().Path() == "fmt" && fn.Name() == "Errorf":
								kind := "bare"
								format := ""
								if len(ce.Args) > 0 {
									if bl, ok := ce.Args[0].(*ast.BasicLit); ok {
										format, _ = strconv.Unquote(bl.Value)
									}
								}
								hasErr := false
								for _, a := range ce.Args[1:] {
									if isErrorType(p.TypesInfo.TypeOf(a)) {
										hasErr = true
									}
								}
								if hasErr {
									if strings.Contains(format, "%w") {
										kind = "wrapW"
										// where does the wrapped error come from? a call outside this module yields
										// an unstructured chain (strconv, fmt.Sscanf, ...) unless it is a context error
										verbs := formatVerbs(format)
										for i, a := range ce.Args[1:] {
											if i < len(verbs) && verbs[i] == 'w' {
												switch originOfError(p, fd, a) {
												case "foreign":
													kind = "wrapW-foreign"
												case "ctx":
													kind = "wrapW-ctx"
												}
											}
										}
									} else {
										kind = "flatten"
									}
								}
								sites = append(sites, ErrorSite{pk.key, fk, kind, "", "fmt.Errorf", reach[fk], ps, truncate(format, 40)})
							case fn.Pkg().Path() == "errors" && fn.Name() == "New":
								sites = append(sites, ErrorSite{pk.key, fk, "bare", "", "errors.New", reach[fk], ps, litPrefix(ce)})
							}
						}
					}
					return true
				})
				// context poll sites
				var walk func(n ast.Node, onErr bool)
				walk = func(n ast.Node, onErr bool) {
					ast.Inspect(n, func(x ast.Node) bool {
						ifs, ok := x.(*ast.IfStmt)
						if !ok || x == n {
							return true
						}
						// if err := ctx.Err(); err != nil { ... }
						if as, ok := ifs.Init.(*ast.AssignStmt); ok && len(as.Rhs) == 1 && len(as.Lhs) == 1 {
							if ce, ok := as.Rhs[0].(*ast.CallExpr); ok && isCtxErrCall(p, ce) {
								errVar := p.TypesInfo.Defs[as.Lhs[0].(*ast.Ident)]
								kind := "dropped"
								ast.Inspect(ifs.Body, func(y ast.Node) bool {
									rs, ok := y.(*ast.ReturnStmt)
									if !ok || len(rs.Results) == 0 {
										return true
									}
									last := rs.Results[len(rs.Results)-1]
									kind = classifyCtxReturn(p, last, errVar)
									return false
								})
								// tokenizer style: tokenErr = ...; return
								ast.Inspect(ifs.Body, func(y ast.Node) bool {
									if a2, ok := y.(*ast.AssignStmt); ok && len(a2.Rhs) == 1 && isErrorType(p.TypesInfo.TypeOf(a2.Lhs[0])) && kind == "dropped" {
										kind = classifyCtxReturn(p, a2.Rhs[0], errVar)
									}
									return true
								})
								pos := l.fset.Position(ifs.Pos())
								ctxSites = append(ctxSites, CtxSite{pk.key, fk, kind, onErr, fmt.Sprintf("%s:%d", filepath.Base(pos.Filename), pos.Line)})
								return false
							}
						}
						// if err != nil { ... } : nested polls are catch-alls
						if be, ok := ifs.Cond.(*ast.BinaryExpr); ok && be.Op == token.NEQ && isErrorType(p.TypesInfo.TypeOf(be.X)) {
							if ifs.Init != nil {
								walk(ifs.Init, onErr)
							}
							walk(ifs.Body, true)
							if ifs.Else != nil {
								walk(ifs.Else, onErr)
							}
							return false
						}
						return true
					})
				}
				walk(fd.Body, false)
			}
		}
	}
	sort.Slice(sites, func(i, j int) bool {
		a, b := sites[i], sites[j]
		if a.Pkg != b.Pkg {
			return a.Pkg < b.Pkg
		}
		return a.Pos < b.Pos
	})
	return sites, ctxSites, nil
}

// originOfError classifies where the error value `e` (an argument of a %w verb) was produced:
// "module" (a call into this module, a parameter, a field), "ctx" (context.Context.Err), "foreign" (a call
// into another module or the standard library).
func originOfError(p *packages.Package, fd *ast.FuncDecl, e ast.Expr) string {
	classifyCall := func(ce *ast.CallExpr) string {
		if isCtxErrCall(p, ce) {
			return "ctx"
		}
		var obj types.Object
		switch f := ce.Fun.(type) {
		case *ast.SelectorExpr:
			obj = p.TypesInfo.Uses[f.Sel]
		case *ast.Ident:
			obj = p.TypesInfo.Uses[f]
		}
		if fn, ok := obj.(*types.Func); ok && fn.Pkg() != nil {
			if strings.HasPrefix(fn.Pkg().Path(), modPath) {
				return "module"
			}
			return "foreign"
		}
		return "module"
	}
	if ce, ok := e.(*ast.CallExpr); ok {
		return classifyCall(ce)
	}
	id, ok := e.(*ast.Ident)
	if !ok {
		return "module"
	}
	obj := p.TypesInfo.Uses[id]
	if obj == nil {
		return "module"
	}
	if v, ok := obj.(*types.Var); ok && v.Pkg() != nil && v.Parent() == v.Pkg().Scope() {
		return "module" // package-level sentinel: classified separately
	}
	origin := "module"
	found := false
	ast.Inspect(fd.Body, func(n ast.Node) bool {
		as, ok := n.(*ast.AssignStmt)
		if !ok || as.Pos() > e.Pos() {
			return true
		}
		for _, lhs := range as.Lhs {
			if lid, ok := lhs.(*ast.Ident); ok && (p.TypesInfo.Defs[lid] == obj || p.TypesInfo.Uses[lid] == obj) {
				if len(as.Rhs) == 1 {
					if ce, ok := as.Rhs[0].(*ast.CallExpr); ok {
						origin = classifyCall(ce)
						found = true
					}
				}
			}
		}
		return true
	})
	// `if err := f(); err != nil` style definitions are AssignStmts too (handled above)
	_ = found
	return origin
}

func isStdCall(p *packages.Package, ce *ast.CallExpr, pkg, name string) bool {
	se, ok := ce.Fun.(*ast.SelectorExpr)
	if !ok {
		return false
	}
	fn, ok := p.TypesInfo.Uses[se.Sel].(*types.Func)
	return ok && fn.Pkg() != nil && fn.Pkg().Path() == pkg && fn.Name() == name
}

func isCtxErrCall(p *packages.Package, ce *ast.CallExpr) bool {
	se, ok := ce.Fun.(*ast.SelectorExpr)
	if !ok || se.Sel.Name != "Err" || len(ce.Args) != 0 {
		return false
	}
	t := p.TypesInfo.TypeOf(se.X)
	return t != nil && strings.HasSuffix(t.String(), "context.Context")
}

func classifyCtxReturn(p *packages.Package, e ast.Expr, errVar types.Object) string {
	if id, ok := e.(*ast.Ident); ok {
		if p.TypesInfo.Uses[id] == errVar {
			return "direct"
		}
		if id.Name == "nil" {
			return "dropped"
		}
		return "flatten"
	}
	if ce, ok := e.(*ast.CallExpr); ok && isStdCall(p, ce, "fmt", "Errorf") && len(ce.Args) > 1 {
		format := ""
		if bl, ok := ce.Args[0].(*ast.BasicLit); ok {
			format, _ = strconv.Unquote(bl.Value)
		}
		// the verb consuming errVar must be %w
		verbs := formatVerbs(format)
		for i, a := range ce.Args[1:] {
			if id, ok := a.(*ast.Ident); ok && p.TypesInfo.Uses[id] == errVar {
				if i < len(verbs) && verbs[i] == 'w' {
					return "wrapW"
				}
				return "flatten"
			}
		}
		return "dropped"
	}
	return "flatten"
}

func formatVerbs(f string) []byte {
	var out []byte
	for i := 0; i < len(f); i++ {
		if f[i] != '%' {
			continue
		}
		i++
		for i < len(f) && strings.ContainsRune("+-# 0123456789.*[]", rune(f[i])) {
			i++
		}
		if i < len(f) && f[i] != '%' {
			out = append(out, f[i])
		}
	}
	return out
}

func litPrefix(ce *ast.CallExpr) string {
	for _, a := range ce.Args {
		if bl, ok := a.(*ast.BasicLit); ok && bl.Kind == token.STRING {
			s, _ := strconv.Unquote(bl.Value)
			return truncate(s, 40)
		}
		if inner, ok := a.(*ast.CallExpr); ok {
			if s := litPrefix(inner); s != "" {
				return s
			}
		}
	}
	return ""
}

func emitErrorsLean(sites []ErrorSite, ctx []CtxSite, dir string) error {
	var b strings.Builder
	b.WriteString(genHeader)
	b.WriteString("namespace GoSQLXModel.Gen\n\n")
	b.WriteString("/-- error construction sites: (package, function, kind, code, reachable, message prefix) -/\n")
	b.WriteString("def errorSites : List (String × String × String × String × Bool × String) := [\n")
	for i, s := range sites {
		sep := ","
		if i == len(sites)-1 {
			sep = ""
		}
		fmt.Fprintf(&b, "  (%s, %s, %s, %s, %s, %s)%s\n", leanStr(s.Pkg), leanStr(s.Func), leanStr(s.Kind), leanStr(s.Code), leanBool(s.Reachable), leanStr(s.Msg), sep)
	}
	b.WriteString("]\n\n/-- context poll sites: (package, function, kind, nested in an `if err != nil` block) -/\n")
	b.WriteString("def ctxSites : List (String × String × String × Bool) := [\n")
	for i, s := range ctx {
		sep := ","
		if i == len(ctx)-1 {
			sep = ""
		}
		fmt.Fprintf(&b, "  (%s, %s, %s, %s)%s\n", leanStr(s.Pkg), leanStr(s.Func), leanStr(s.Kind), leanBool(s.OnError), sep)
	}
	b.WriteString("]\n\nend GoSQLXModel.Gen\n")
	_, err := writeIfChanged(filepath.Join(dir, "ErrorSites.lean"), []byte(b.String()))
	return err
}
