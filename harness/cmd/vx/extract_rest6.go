package main

func extractRest6(l *loaded, genDir, jsonDir string) error { return nil }
