package main

func extractRest6(l *loaded, genDir, jsonDir string) error {
	if err := emitUnicodeLean(genDir); err != nil {
		return err
	}
	return extractRest7(l, genDir, jsonDir)
}
