package main

func extractRest(l *loaded, genDir, jsonDir string) error {
	pg, err := extractCallGraph(l, "pkg/sql/parser", "Parser")
	if err != nil {
		return err
	}
	if err := writeJSON(jsonDir+"/parser_callgraph.json", pg); err != nil {
		return err
	}
	if err := emitGraphLean("parser", pg, genDir); err != nil {
		return err
	}
	tg, err := extractCallGraph(l, "pkg/sql/tokenizer", "Tokenizer")
	if err != nil {
		return err
	}
	if err := writeJSON(jsonDir+"/tokenizer_callgraph.json", tg); err != nil {
		return err
	}
	if err := emitGraphLean("tokenizer", tg, genDir); err != nil {
		return err
	}
	lim, err := extractLimits(l)
	if err != nil {
		return err
	}
	if err := writeJSON(jsonDir+"/limits.json", lim); err != nil {
		return err
	}
	if err := emitLimitsLean(lim, genDir); err != nil {
		return err
	}
	return extractRest2(l, genDir, jsonDir)
}
