package main

// Child-process executor: operations whose outcome may be a crash, a fatal stack overflow or a
// hang run in `vx child`, one request per line (`op<TAB>file-with-input`), one answer per line.
// The parent (childPool) classifies: answer / child died (crash) / no answer in time (hang).

import (
	"bufio"
	"context"
	"errors"
	"fmt"
	sqlkw "github.com/ajitpratap0/GoSQLX/pkg/sql/keywords"
	"io"
	"os"
	"os/exec"
	"runtime/debug"
	"strings"
	"sync"
	"time"

	goerrors "github.com/ajitpratap0/GoSQLX/pkg/errors"
	"github.com/ajitpratap0/GoSQLX/pkg/formatter"
	"github.com/ajitpratap0/GoSQLX/pkg/gosqlx"
	"github.com/ajitpratap0/GoSQLX/pkg/linter"
	"github.com/ajitpratap0/GoSQLX/pkg/linter/rules/keywords"
	"github.com/ajitpratap0/GoSQLX/pkg/linter/rules/whitespace"
	"github.com/ajitpratap0/GoSQLX/pkg/sql/ast"
	"github.com/ajitpratap0/GoSQLX/pkg/sql/parser"
	"github.com/ajitpratap0/GoSQLX/pkg/sql/security"
	"github.com/ajitpratap0/GoSQLX/pkg/sql/tokenizer"
)

func errCode(err error) string {
	if err == nil {
		return "ok"
	}
	var e *goerrors.Error
	if errors.As(err, &e) {
		return string(e.Code)
	}
	if errors.Is(err, context.Canceled) {
		return "ctx-canceled"
	}
	if errors.Is(err, context.DeadlineExceeded) {
		return "ctx-deadline"
	}
	return "unstructured"
}

// limitEntryPoints: every way of obtaining a tokenizer (constructors, pool, reuse) and the byte-string entry points
// built on them, for the limit probes of C02: a limit holds whatever the instance's origin.
var limitEntryPoints = map[string]func(in []byte) error{
	"tokenize:dialect": func(in []byte) error {
		t, err := tokenizer.NewWithDialect(sqlkw.DialectPostgreSQL)
		if err != nil {
			return err
		}
		_, err = t.Tokenize(in)
		return err
	},
	"tokenize:alldialects": func(in []byte) error {
		var first error
		for _, d := range sqlkw.AllDialects() {
			t, err := tokenizer.NewWithDialect(d)
			if err != nil {
				continue
			}
			if _, err := t.Tokenize(in); err != nil && first == nil {
				first = err
			}
			t2 := tokenizer.GetTokenizer()
			t2.SetDialect(d)
			_, _ = t2.Tokenize(in)
			tokenizer.PutTokenizer(t2)
		}
		return first
	},
	"tokenize:keywords": func(in []byte) error {
		t, err := tokenizer.NewWithKeywords(sqlkw.NewKeywords())
		if err != nil {
			return err
		}
		_, err = t.Tokenize(in)
		return err
	},
	"tokenizectx:keywords": func(in []byte) error {
		t, err := tokenizer.NewWithKeywords(sqlkw.NewKeywords())
		if err != nil {
			return err
		}
		_, err = t.TokenizeContext(context.Background(), in)
		return err
	},
	"tokenize:pool": func(in []byte) error {
		t := tokenizer.GetTokenizer()
		defer tokenizer.PutTokenizer(t)
		_, err := t.Tokenize(in)
		return err
	},
	"tokenizectx:pool": func(in []byte) error {
		t := tokenizer.GetTokenizer()
		defer tokenizer.PutTokenizer(t)
		_, err := t.TokenizeContext(context.Background(), in)
		return err
	},
	"tokenize:reused": func(in []byte) error {
		t, _ := tokenizer.New()
		_, _ = t.Tokenize([]byte("SELECT 1"))
		t.Reset()
		_, err := t.Tokenize(in)
		return err
	},
	"tokenize:setdialect": func(in []byte) error {
		t, _ := tokenizer.New()
		t.SetDialect(sqlkw.DialectMySQL)
		_, err := t.Tokenize(in)
		return err
	},
}

// entryPoints: every public entry point named by C01, keyed by a short name.
var entryPoints = map[string]func(in []byte) error{
	"tokenize": func(in []byte) error {
		t, _ := tokenizer.New()
		_, err := t.Tokenize(in)
		return err
	},
	"tokenizectx": func(in []byte) error {
		t, _ := tokenizer.New()
		_, err := t.TokenizeContext(context.Background(), in)
		return err
	},
	"parse":      func(in []byte) error { _, err := gosqlx.Parse(string(in)); return err },
	"parsebytes": func(in []byte) error { _, err := gosqlx.ParseBytes(in); return err },
	"parsectx": func(in []byte) error {
		_, err := gosqlx.ParseWithContext(context.Background(), string(in))
		return err
	},
	"parsetimeout": func(in []byte) error { _, err := gosqlx.ParseWithTimeout(string(in), time.Minute); return err },
	"validate":     func(in []byte) error { return gosqlx.Validate(string(in)) },
	"recovery": func(in []byte) error {
		_, errs := gosqlx.ParseWithRecovery(string(in))
		if len(errs) > 0 {
			return errs[0]
		}
		return nil
	},
	"parser.parsebytes":    func(in []byte) error { _, err := parser.ParseBytes(in); return err },
	"parser.validate":      func(in []byte) error { return parser.Validate(string(in)) },
	"parser.validatebytes": func(in []byte) error { return parser.ValidateBytes(in) },
	"parser.dialect": func(in []byte) error {
		_, err := parser.ParseWithDialect(string(in), "mysql")
		return err
	},
	"strict": func(in []byte) error {
		t, _ := tokenizer.New()
		toks, err := t.Tokenize(in)
		if err != nil {
			return err
		}
		p := parser.NewParser(parser.WithStrictMode())
		_, err = p.ParseFromModelTokens(toks)
		return err
	},
	"positions": func(in []byte) error {
		t, _ := tokenizer.New()
		toks, err := t.Tokenize(in)
		if err != nil {
			return err
		}
		p := parser.NewParser()
		_, err = p.ParseFromModelTokensWithPositions(toks)
		return err
	},
	"format": func(in []byte) error {
		_, err := gosqlx.Format(string(in), gosqlx.DefaultFormatOptions())
		return err
	},
	"formatter": func(in []byte) error {
		_, err := formatter.New(formatter.Options{}).Format(string(in))
		return err
	},
	"sql": func(in []byte) error {
		tree, err := gosqlx.Parse(string(in))
		if err != nil {
			return err
		}
		_ = tree.SQL()
		_ = tree.Format(ast.ReadableStyle())
		_ = tree.Format(ast.CompactStyle())
		return nil
	},
	"extract": func(in []byte) error {
		tree, err := gosqlx.Parse(string(in))
		if err != nil {
			return err
		}
		_ = gosqlx.ExtractTables(tree)
		_ = gosqlx.ExtractColumns(tree)
		_ = gosqlx.ExtractFunctions(tree)
		_ = gosqlx.ExtractTablesQualified(tree)
		_ = gosqlx.ExtractColumnsQualified(tree)
		_ = gosqlx.ExtractMetadata(tree)
		return nil
	},
	"scan": func(in []byte) error {
		s := security.NewScanner()
		_ = s.ScanSQL(string(in))
		tree, err := gosqlx.Parse(string(in))
		if err != nil {
			return err
		}
		_ = s.Scan(tree)
		return nil
	},
	"inspect": func(in []byte) error {
		tree, err := gosqlx.Parse(string(in))
		if err != nil {
			return err
		}
		n := 0
		ast.Inspect(tree, func(ast.Node) bool { n++; return true })
		ast.ReleaseAST(tree)
		return nil
	},
	"lintfix": func(in []byte) error {
		rules := []linter.Rule{
			whitespace.NewTrailingWhitespaceRule(), whitespace.NewMixedIndentationRule(),
			whitespace.NewConsecutiveBlankLinesRule(1), whitespace.NewRedundantWhitespaceRule(),
			keywords.NewKeywordCaseRule(keywords.CaseUpper), keywords.NewKeywordCaseRule(keywords.CaseLower),
		}
		text := string(in)
		vs := linter.New(rules...).LintString(text, "in.sql").Violations
		for _, r := range rules {
			_, _ = r.Fix(text, nil)
			_, _ = r.Fix(text, vs)
		}
		return nil
	},
	"lint": func(in []byte) error {
		l := linter.New(
			whitespace.NewTrailingWhitespaceRule(), whitespace.NewMixedIndentationRule(),
			whitespace.NewConsecutiveBlankLinesRule(1), whitespace.NewIndentationDepthRule(4, 4),
			whitespace.NewLongLinesRule(100), whitespace.NewRedundantWhitespaceRule(),
			keywords.NewKeywordCaseRule(keywords.CaseUpper),
		)
		_ = l.LintString(string(in), "in.sql")
		return nil
	},
}

func childMain(args []string) int {
	debug.SetMaxStack(256 << 20) // a fatal stack overflow costs 256 MB, not 1 GB
	in := bufio.NewReaderSize(os.Stdin, 1<<16)
	out := bufio.NewWriter(os.Stdout)
	for {
		line, err := in.ReadString('\n')
		if err != nil {
			return 0
		}
		parts := strings.SplitN(strings.TrimRight(line, "\n"), "\t", 2)
		if len(parts) != 2 {
			fmt.Fprintln(out, "bad-request")
			out.Flush()
			continue
		}
		data, err := os.ReadFile(parts[1])
		if err != nil {
			fmt.Fprintln(out, "bad-file")
			out.Flush()
			continue
		}
		ans := runEntry(parts[0], data)
		fmt.Fprintln(out, ans)
		out.Flush()
	}
}

func runEntry(op string, data []byte) (ans string) {
	defer func() {
		if r := recover(); r != nil {
			ans = "panic " + strings.ReplaceAll(fmt.Sprint(r), "\n", " ")
		}
	}()
	// the entry points get a slice whose capacity is exactly its length: reading past the end of the input panics
	// instead of silently reading the spare bytes of a larger buffer
	exact := make([]byte, len(data))
	copy(exact, data)
	data = exact[:len(exact):len(exact)]
	if strings.HasPrefix(op, "x:") {
		return childExtra(op[2:], data)
	}
	f := entryPoints[op]
	if f == nil {
		f = limitEntryPoints[op]
	}
	if f == nil {
		return "bad-op"
	}
	err := f(data)
	if err != nil {
		// the error a call hands back is part of its answer: it can be read (rendering it must not panic either)
		_ = err.Error()
		_ = fmt.Sprintf("%v|%+v", err, err)
		for u := errors.Unwrap(err); u != nil; u = errors.Unwrap(u) {
			_ = u.Error()
		}
	}
	return errCode(err)
}

// ---------------------------------------------------------------------------------------------
// parent side

type childProc struct {
	cmd *exec.Cmd
	in  io.WriteCloser
	out *bufio.Reader
}

type childPool struct {
	mu   sync.Mutex
	self string
	c    *childProc
	n    int
	env  []string // extra environment of the child
}

func newChildPool() *childPool {
	self, _ := os.Executable()
	return &childPool{self: self}
}

func (p *childPool) start() error {
	cmd := exec.Command(p.self, "child")
	cmd.Env = append(append(os.Environ(), "GOMEMLIMIT=6GiB", "GOTRACEBACK=single"), p.env...)
	in, _ := cmd.StdinPipe()
	outp, _ := cmd.StdoutPipe()
	cmd.Stderr = nil
	if err := cmd.Start(); err != nil {
		return err
	}
	p.c = &childProc{cmd, in, bufio.NewReaderSize(outp, 1<<16)}
	return nil
}

// Run executes op on data in the child. Returns the answer, or "crash" when the child died
// (panic escaped the recover in runEntry cannot happen; a runtime fatal error can), or "hang".
func (p *childPool) Run(op string, data []byte, timeout time.Duration) string {
	p.mu.Lock()
	defer p.mu.Unlock()
	if p.c == nil {
		if err := p.start(); err != nil {
			return "child-start-failed"
		}
	}
	p.n++
	path := fmt.Sprintf("%s/.work/child-%d-%d.in", verifDir, os.Getpid(), p.n%4)
	_ = os.MkdirAll(verifDir+"/.work", 0o755)
	if err := os.WriteFile(path, data, 0o644); err != nil {
		return "child-io"
	}
	defer os.Remove(path)
	if _, err := io.WriteString(p.c.in, op+"\t"+path+"\n"); err != nil {
		p.kill()
		return "crash"
	}
	type rd struct {
		s   string
		err error
	}
	ch := make(chan rd, 1)
	c := p.c
	go func() {
		s, err := c.out.ReadString('\n')
		ch <- rd{s, err}
	}()
	select {
	case r := <-ch:
		if r.err != nil {
			p.kill()
			return "crash"
		}
		return strings.TrimRight(r.s, "\n")
	case <-time.After(timeout):
		p.kill()
		return "hang"
	}
}

func (p *childPool) kill() {
	if p.c != nil {
		_ = p.c.cmd.Process.Kill()
		_, _ = p.c.cmd.Process.Wait()
		p.c = nil
	}
}

func (p *childPool) Close() { p.mu.Lock(); p.kill(); p.mu.Unlock() }
