package main

func childMain(args []string) int { return 0 }

func extractRest(l *loaded, genDir, jsonDir string) error { return nil }
