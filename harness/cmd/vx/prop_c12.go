package main

import (
	"context"
	"encoding/json"
	"errors"
	"fmt"
	goerrors "github.com/ajitpratap0/GoSQLX/pkg/errors"
	"os"
	"strings"

	"github.com/ajitpratap0/GoSQLX/pkg/gosqlx"
	"github.com/ajitpratap0/GoSQLX/pkg/models"
	"github.com/ajitpratap0/GoSQLX/pkg/sql/parser"
	"github.com/ajitpratap0/GoSQLX/pkg/sql/token"
	"github.com/ajitpratap0/GoSQLX/pkg/sql/tokenizer"
)

func init() { props["C12"] = runC12 }

var stmtStartWords = map[string]bool{"SELECT": true, "INSERT": true, "UPDATE": true, "DELETE": true, "CREATE": true, "ALTER": true,
	"DROP": true, "WITH": true, "MERGE": true, "REFRESH": true, "TRUNCATE": true, "GRANT": true, "REVOKE": true, "SET": true,
	"BEGIN": true, "COMMIT": true, "ROLLBACK": true}

// containsStartAfterFirst: does the segment contain a statement-starting keyword after its first token (by real tokens)?
func containsStartAfterFirst(conv []token.Token) bool {
	for i, t := range conv {
		if i == 0 || t.Type == models.TokenTypeEOF {
			continue
		}
		if isStartKeywordToken(t) {
			return true
		}
	}
	return false
}

// isStartKeywordToken: the token is a keyword token (its type is the keyword's own) of a statement-starting word —
// decided from the token type alone, independently of the parser's test; a string literal, a quoted name or an
// identifier is never one, whatever it spells
func isStartKeywordToken(t token.Token) bool {
	return stmtStartWords[strings.ToUpper(t.Type.String())]
}

func convOf(sql string) []token.Token {
	toks := tokenizeFresh(sql)
	if toks == nil {
		return nil
	}
	cr, err := parser.VerifConvert(toks)
	if err != nil {
		return nil
	}
	return cr.Tokens
}

func runC12(c *runCtx) {
	res := c.res
	res.Rule = "scripts S1;...;Sn (n<=6): each Si a generated/corpus statement that parses alone, or a single-token corruption of one that fails alone, contains no semicolon and no statement-starting keyword after its first token; recovery must return exactly the trees of the good ones in order and one error per bad one with TokenIdx inside its own segment; plus token soup for termination and the iff clause; the Lean recovery model must predict statements and error indices from the real parseStatement oracle (distinct = distinct scripts)"
	drv := c.driver()
	g := newSQLGen(c.rng.Fork())
	g.Plain = true // no comments / newlines: corruptions re-join tokens with single spaces
	simpleGood := []string{"SELECT a FROM t", "SELECT a, b FROM t WHERE a = 1", "DELETE FROM t WHERE a = 1", "INSERT INTO t (a) VALUES (1)",
		"DROP TABLE t", "TRUNCATE TABLE t", "SELECT COUNT(*) FROM t GROUP BY a", "SHOW TABLES", "DESCRIBE t", "SELECT INTERVAL 3 DAY",
		"CREATE TABLE t (a INT)", "SELECT a FROM t ORDER BY a LIMIT 3", "REPLACE INTO t (a) VALUES (1)", "EXPLAIN SELECT 1",
		// statements with several nodes of one kind each (tuples, calls, CASEs, casts, sub-queries, arrays, windows): a node
		// a malformed neighbour left in a bad state shows in one of them
		"SELECT * FROM u WHERE (a, b) IN ((1, 2), (3, 4))", "SELECT f(a), g(b), h(f(c)) FROM t", "SELECT CASE WHEN a THEN 1 END, CASE b WHEN 1 THEN 2 ELSE 3 END FROM t",
		"SELECT CAST(a AS INT), CAST(b AS TEXT) FROM t", "SELECT a FROM t WHERE a IN (SELECT b FROM u) AND c IN (SELECT d FROM v)", "SELECT ARRAY[1, 2], ARRAY[3] FROM t",
		"SELECT SUM(a) OVER (PARTITION BY b), AVG(c) OVER (ORDER BY d) FROM t", "SELECT a BETWEEN 1 AND 2, b BETWEEN 3 AND 4 FROM t", "SELECT (1, 2), (3, 4), (5, 6) FROM t",
		"INSERT INTO t (a, b) VALUES (1, 2), (3, 4), (5, 6)", "SELECT a FROM t WHERE EXISTS (SELECT 1 FROM u) AND NOT EXISTS (SELECT 1 FROM v)"}
	type seg struct {
		text string
		good bool
		dump string
	}
	// tie of the harness's own keyword set to the source: the token types the parser's test lists (regenerated table)
	if raw, err := os.ReadFile(verifDir + "/gen/structure.json"); err == nil {
		var st struct {
			Types []string `json:"recovery_start_types"`
			Other []string `json:"recovery_start_other"`
		}
		if json.Unmarshal(raw, &st) == nil && st.Types != nil {
			res.CorrCases++
			got := map[string]bool{}
			for _, t := range st.Types {
				got[strings.ToUpper(t)] = true
			}
			same := len(got) == len(stmtStartWords)
			for w := range stmtStartWords {
				same = same && got[w]
			}
			if !same || len(st.Other) != 0 {
				res.corrFail("statement-start-table", "the statement-starting token types listed in recovery.go (or what else its test reads) differ from the set the harness quantifies with",
					map[string]any{"source_types": st.Types, "source_other": st.Other}, nil)
			}
		}
	}
	allWords := parserWords()
	var startWords []string
	for _, w := range allWords {
		if cv := convOf(w); len(cv) >= 1 && parser.VerifIsStatementStart(cv[0]) {
			startWords = append(startWords, w)
		}
	}
	res.Notes = append(res.Notes, "statement-starting words (from the parser's own test, over the grammar's words): "+strings.Join(startWords, " "))
	mkSeg := func() (seg, bool) {
		var base string
		if c.rng.Chance(50) {
			base = c.rng.Pick(simpleGood)
		} else {
			base = g.Statement()
		}
		base = strings.ReplaceAll(base, ";", "")
		if c.rng.Chance(18) {
			// a statement of the clause catalogue cut off after any of its tokens (every optional clause of every statement
			// kind, cut in the middle): what the failing production had consumed stays inside the statement
			full := strings.Fields(c.rng.Pick(c12CutCatalogue))
			if len(full) > 2 {
				bad := strings.Join(full[:1+c.rng.Intn(len(full)-1)], " ")
				conv := convOf(bad)
				if conv != nil && len(conv) >= 2 && !containsStartAfterFirst(conv) {
					if _, err := gosqlx.Parse(bad); err != nil {
						res.stat("segment-cut-catalogue-statement")
						return seg{bad, false, ""}, true
					}
				}
			}
			return seg{}, false
		}
		if c.rng.Chance(8) {
			// a statement that is wrong from its first token on (no statement begins like this)
			bad := c.rng.Pick([]string{"FOO bar", ") x", "42", "x y z", "'text' , 1", "= 1", "bar ( 1 , 2 )", "* FROM t", ", a", "NULL"})
			conv := convOf(bad)
			if conv == nil || containsStartAfterFirst(conv) {
				return seg{}, false
			}
			if _, err := gosqlx.Parse(bad); err == nil {
				return seg{}, false
			}
			res.stat("segment-wrong-from-first-token")
			return seg{bad, false, ""}, true
		}
		if c.rng.Chance(12) {
			// a malformed statement that goes on, after the point where it fails, with words of the grammar written as
			// string literals and quoted names: they are values and names, not the start of anything
			w := c.rng.Pick(startWords)
			if c.rng.Chance(40) {
				w = c.rng.Pick(allWords)
			}
			switch c.rng.Intn(3) {
			case 0:
				w = strings.ToLower(w)
			case 1:
				w = w[:1] + strings.ToLower(w[1:])
			}
			head := c.rng.Pick([]string{"SELECT a FROM WHERE b =", "SELECT FROM t WHERE c =", "INSERT INTO VALUES ( 1 ,", "UPDATE SET a =", "DELETE t WHERE a =", "SELECT a , , b FROM t WHERE c IN (", "CREATE TABLE ( a INT DEFAULT"})
			tail := c.rng.Pick([]string{"'" + w + "'", "\"" + w + "\"", "'" + w + "' AND d = \"" + w + "\"", "x , '" + w + "' , 2 )", "\"" + w + "\" . c > 1"})
			bad := head + " " + tail
			conv := convOf(bad)
			if conv == nil || len(conv) < 2 || containsStartAfterFirst(conv) {
				return seg{}, false
			}
			if _, err := gosqlx.Parse(bad); err == nil {
				return seg{}, false
			}
			res.stat("segment-with-quoted-grammar-word")
			return seg{bad, false, ""}, true
		}
		if c.rng.Chance(55) {
			tree, err := gosqlx.Parse(base)
			if err != nil || len(tree.Statements) != 1 {
				return seg{}, false
			}
			return seg{base, true, dumpNode(tree.Statements[0])}, true
		}
		for try := 0; try < 6; try++ {
			cs := corruptions(c.rng, base, 1)
			if len(cs) == 0 {
				continue
			}
			bad := strings.ReplaceAll(cs[0], ";", "")
			conv := convOf(bad)
			if conv == nil || len(conv) < 2 || containsStartAfterFirst(conv) {
				continue
			}
			if _, err := gosqlx.Parse(bad); err == nil {
				continue
			}
			return seg{bad, false, ""}, true
		}
		return seg{}, false
	}
	rounds := c.n(1500, 40000)
	for r := 0; r < rounds; r++ {
		n := 1 + c.rng.Intn(6)
		var segs []seg
		for len(segs) < n {
			if s, ok := mkSeg(); ok {
				segs = append(segs, s)
			}
		}
		var parts []string
		for _, s := range segs {
			parts = append(parts, s.text)
		}
		// empty statements (a doubled or leading semicolon) stand between the statements now and then: they yield nothing
		script := ""
		if c.rng.Chance(15) {
			script = "; "
		}
		for i, p := range parts {
			script += p
			if i < len(parts)-1 {
				script += c.rng.Pick([]string{" ;\n", " ;\n", " ;\n", " ;;\n", "; ;\n", " ; ; ;\n"})
			}
		}
		script += c.rng.Pick([]string{" ;", " ;", " ;;"})
		conv := convOf(script)
		if conv == nil {
			res.stat("script-lex-error")
			continue
		}
		for _, t := range conv {
			if t.Type != models.TokenTypeEOF && parser.VerifIsStatementStart(t) != isStartKeywordToken(t) {
				res.fail("statement-start-classification", "recovery's test for a statement-starting keyword answers differently from the token's type (a literal, a quoted name or an identifier is no keyword; a keyword token of a starting word is one)",
					map[string]any{"script": script, "token": t.Literal, "type": t.Type.String()}, map[string]any{"parser_says": parser.VerifIsStatementStart(t)})
				break
			}
		}
		// segment boundaries in token indices
		var bounds [][2]int
		start := 0
		for i, t := range conv {
			if t.Type == models.TokenTypeSemicolon {
				if i > start { // an empty statement has no segment
					bounds = append(bounds, [2]int{start, i})
				}
				start = i + 1
			}
		}
		if len(bounds) != len(segs) {
			res.stat("segment-count-mismatch")
			continue
		}
		res.count(script, true)
		if r < 2 {
			res.sample(map[string]any{"script": script, "good": func() (g []bool) {
				for _, s := range segs {
					g = append(g, s.good)
				}
				return
			}()})
		}
		stmts, errs := parser.NewParser().ParseWithRecovery(conv)
		wit := map[string]any{"script": script}
		// a malformed segment whose *prefix* is a complete statement: parseStatement succeeds and stops inside the
		// segment; recovery then returns a tree for the prefix as well as the error for the rest
		partial := false
		for i, sg := range segs {
			if !sg.good {
				_, perr, stop := parser.VerifStmtAt(nil, conv, bounds[i][0])
				if perr == nil && stop <= bounds[i][1] {
					partial = true
				}
			}
		}
		if partial {
			res.stat("script-with-partial-prefix")
			want := 0
			for _, sg := range segs {
				if sg.good {
					want++
				}
			}
			if len(stmts) > want {
				res.fail("recovery-partial-statement", "a malformed statement whose prefix is a complete statement contributes a tree (for the prefix) to the recovery result",
					map[string]any{"script": script}, map[string]any{"trees": len(stmts), "well_formed": want})
			}
			// … but the malformed statement is still reported, once, and strict parsing still agrees on "there is an error"
			nBadP := len(segs) - want
			if len(errs) != nBadP {
				res.fail("recovery-error-count", fmt.Sprintf("recovery reports %d errors for %d malformed statements", len(errs), nBadP), map[string]any{"script": script}, nil)
			}
			if _, perr := parser.NewParser().Parse(conv); (perr != nil) != (len(errs) > 0) {
				res.fail("recovery-iff", "recovery reports an error iff strict parsing fails — violated", map[string]any{"script": script}, fmt.Sprint(perr))
			}
			continue
		}
		var wantDumps []string
		nBad := 0
		for _, s := range segs {
			if s.good {
				wantDumps = append(wantDumps, s.dump)
			} else {
				nBad++
			}
		}
		var gotDumps []string
		for _, s := range stmts {
			gotDumps = append(gotDumps, dumpNode(s))
		}
		if strings.Join(gotDumps, "\x00") != strings.Join(wantDumps, "\x00") {
			res.fail("recovery-statements-differ", "recovery does not return exactly the trees of the well-formed statements, in order", wit,
				map[string]any{"want": len(wantDumps), "got": len(gotDumps)})
		}
		if len(errs) != nBad {
			res.fail("recovery-error-count", fmt.Sprintf("recovery reports %d errors for %d malformed statements", len(errs), nBad), wit, nil)
		} else {
			bi := 0
			for i, s := range segs {
				if s.good {
					continue
				}
				var pe *parser.ParseError
				if !errors.As(errs[bi], &pe) {
					res.fail("recovery-error-not-parseerror", "a recovery error is not a *parser.ParseError", wit, nil)
				} else if pe.TokenIdx < bounds[i][0] || pe.TokenIdx > bounds[i][1] {
					res.fail("recovery-error-outside-segment", "a recovery error names a token outside its own statement", wit,
						map[string]any{"segment": i, "token_idx": pe.TokenIdx, "bounds": bounds[i]})
				}
				bi++
			}
		}
		// the byte-string entry point: each error is located on the line of its own statement (every statement of the
		// script stands on a line of its own), inside that line
		if gs, gerrs := gosqlx.ParseWithRecovery(script); len(gerrs) == nBad && len(gs) == len(wantDumps) {
			lines := strings.Split(script, "\n")
			bi := 0
			for i, sg := range segs {
				if sg.good {
					continue
				}
				var se *goerrors.Error
				if errors.As(gerrs[bi], &se) && (se.Location.Line != 0 || se.Location.Column != 0) {
					if se.Location.Line != i+1 || se.Location.Column < 1 || se.Location.Column > len(lines[i])+1 {
						res.fail("recovery-error-location-outside-statement", "a recovery error is located outside the text of its own statement", wit,
							map[string]any{"segment": i, "line_of_statement": i + 1, "location": fmt.Sprintf("%d:%d", se.Location.Line, se.Location.Column), "line_length": len(lines[i])})
					}
				}
				// the recovery error's own line / column: inside its statement too, the start of the token it names, and
				// the same place as the structured error it wraps
				var rpe *parser.ParseError
				if errors.As(gerrs[bi], &rpe) && rpe.Line > 0 {
					if rpe.Line != i+1 || rpe.Column < 1 || rpe.Column > len(lines[i])+1 {
						res.fail("recovery-error-location-outside-statement", "a recovery error (ParseError.Line/Column) is located outside the text of its own statement", wit,
							map[string]any{"segment": i, "line_of_statement": i + 1, "location": fmt.Sprintf("%d:%d", rpe.Line, rpe.Column), "line_length": len(lines[i])})
					} else if se != nil && se.Location.Line > 0 && (se.Location.Line != rpe.Line || se.Location.Column != rpe.Column) {
						res.fail("recovery-error-two-locations", "a recovery error and the structured error it wraps name different places", wit,
							map[string]any{"segment": i, "parse_error": fmt.Sprintf("%d:%d", rpe.Line, rpe.Column), "wrapped": fmt.Sprintf("%d:%d", se.Location.Line, se.Location.Column)})
					}
				}
				bi++
			}
		} else if len(gerrs) != nBad || len(gs) != len(wantDumps) {
			res.fail("recovery-entry-points-differ", "gosqlx.ParseWithRecovery and Parser.ParseWithRecovery disagree on the number of trees or errors", wit,
				map[string]any{"gosqlx": []int{len(gs), len(gerrs)}, "parser": []int{len(stmts), len(errs)}})
		}
		// iff clause against strict parsing
		_, perr := parser.NewParser().Parse(conv)
		if (perr != nil) != (len(errs) > 0) {
			res.fail("recovery-iff", "recovery reports an error iff strict parsing fails — violated", wit, fmt.Sprint(perr))
		}
		// model prediction
		if drv != nil && len(conv) <= 300 {
			lc := buildLoopsCase(conv)
			ans, err := drv.Ask("loops", lc.payload(false))
			if err == nil {
				m := parseAnswer(ans)
				res.CorrCases++
				var idx []string
				for _, e := range errs {
					var pe *parser.ParseError
					if errors.As(e, &pe) {
						idx = append(idx, fmt.Sprint(pe.TokenIdx))
					}
				}
				parts := strings.SplitN(m["rec"], "/", 2)
				if len(parts) != 2 || parts[1] != strings.Join(idx, ",") || strings.TrimPrefix(lc.modelOutcome("ok:"+parts[0]), "ok:") != strings.Join(gotDumps, ";")+func() string {
					if len(gotDumps) > 0 {
						return ";"
					}
					return ""
				}() {
					res.corrFail("loops:Recovery", "Lean recLoop prediction differs from Parser.ParseWithRecovery", map[string]any{"script": script, "model": m["rec"]}, strings.Join(idx, ","))
				}
			}
		}
	}
	// long runs of malformed statements must not wear the parser out: what follows them is still parsed
	for _, sc := range []struct {
		name string
		bad  string
		k    int
	}{
		{"shallow-expression-errors", "SELECT a FROM t WHERE a = ", 130},
		{"nested-paren-errors", "SELECT " + strings.Repeat("(", 40) + "1 + ", 4},
		{"cte-errors", "WITH c AS (SELECT (1 + ", 60},
		{"case-errors", "SELECT CASE WHEN a THEN ", 120},
		{"function-errors", "SELECT f(g(h(1, ", 110},
		{"subquery-errors", "SELECT a FROM t WHERE a IN (SELECT b FROM u WHERE ", 105},
	} {
		script := strings.Repeat(sc.bad+";\n", sc.k) + "SELECT x FROM y WHERE z = 1;\nSELECT (((((1)))));"
		res.count("run|"+sc.name, true)
		stmts, errs := gosqlx.ParseWithRecovery(script)
		if len(stmts) != 2 || len(errs) != sc.k {
			res.fail("recovery-after-many-errors:"+sc.name, "after a run of malformed statements the well-formed ones that follow are not returned (or the error count is off)",
				map[string]any{"malformed": sc.bad, "repeated": sc.k, "then": "SELECT x FROM y WHERE z = 1; SELECT (((((1)))));"}, map[string]any{"trees": len(stmts), "errors": len(errs)})
		}
	}
	// token soup: termination and the iff clause on arbitrary token sequences
	vocab := []string{"SELECT", "FROM", "WHERE", ";", "(", ")", ",", "a", "1", "'s'", "INSERT", "INTO", "VALUES", "UPDATE", "SET", "=", "AND", "NOT",
		"WITH", "AS", "JOIN", "ON", "GROUP", "BY", "ORDER", "*", "CASE", "WHEN", "THEN", "END", "DELETE", "CREATE", "TABLE", "DROP", "BEGIN", "COMMIT", "GRANT", "UNION", "IN", "EXISTS", "INTERVAL", "3"}
	pool := newChildPool()
	defer pool.Close()
	for r := 0; r < c.n(1500, 30000); r++ {
		k := 1 + c.rng.Intn(14)
		ws := make([]string, k)
		for i := range ws {
			ws[i] = c.rng.Pick(vocab)
		}
		soup := strings.Join(ws, " ")
		res.count("soup|"+soup, true)
		conv := convOf(soup)
		if conv == nil || !hasNonSemicolonToken(conv) {
			continue
		}
		_, perr := parser.NewParser().Parse(conv)
		_, errs := parser.NewParser().ParseWithRecovery(conv)
		if (perr != nil) != (len(errs) > 0) {
			res.fail("recovery-iff", "recovery reports an error iff strict parsing fails — violated", map[string]any{"script": soup}, fmt.Sprint(perr))
		}
	}
	// well-formed statements written one after the other with and without semicolons between them, and cut anywhere:
	// recovery reports an error iff strict parsing fails, for each of the strict loops
	for r := 0; r < c.n(1200, 20000); r++ {
		k := 2 + c.rng.Intn(3)
		text := ""
		for i := 0; i < k; i++ {
			st := c.rng.Pick(simpleGood)
			if c.rng.Chance(40) {
				st = strings.ReplaceAll(g.Statement(), ";", "")
			}
			text += st
			if i < k-1 {
				text += c.rng.Pick([]string{" ", "\n", " ; ", "\n", " ;\n"})
			}
		}
		if c.rng.Chance(20) {
			ws := strings.Fields(text)
			text = strings.Join(ws[:1+c.rng.Intn(len(ws))], " ")
		}
		conv := convOf(text)
		if conv == nil || !hasNonSemicolonToken(conv) {
			continue
		}
		res.count("joined|"+text, true)
		_, errs := parser.NewParser().ParseWithRecovery(conv)
		tk, _ := tokenizer.New()
		mt, _ := tk.Tokenize([]byte(text))
		strict := map[string]error{}
		_, strict["Parse"] = parser.NewParser().Parse(conv)
		_, strict["ParseContext"] = parser.NewParser().ParseContext(context.Background(), conv)
		if mt != nil {
			_, strict["ParseFromModelTokensWithPositions"] = parser.NewParser().ParseFromModelTokensWithPositions(mt)
		}
		for name, perr := range strict {
			if (perr != nil) != (len(errs) > 0) {
				res.fail("recovery-iff:"+name, "statements written one after the other: recovery reports an error iff strict parsing fails — violated", map[string]any{"script": text, "strict_entry": name},
					map[string]any{"strict_error": fmt.Sprint(perr), "recovery_errors": len(errs)})
			}
		}
	}
	for _, in := range []string{strings.Repeat("SELECT ( ; ", 3000), strings.Repeat(") ", 20000), strings.Repeat("SELECT FROM WHERE ", 5000), strings.Repeat("x ", 50000)} {
		a := pool.Run("recovery", []byte(in), 60e9)
		res.count("soup-big|"+truncate(in, 30), true)
		if a == "hang" || a == "crash" || strings.HasPrefix(a, "panic") {
			res.fail("recovery-nontermination", "recovery parsing did not return on token soup: "+a, map[string]any{"input_prefix": truncate(in, 60), "len": len(in)}, nil)
		}
	}
}

// c12CutCatalogue: statements that spell out the optional clauses of every statement kind (no statement keyword after the first token)
var c12CutCatalogue = []string{
	"CREATE TABLE IF NOT EXISTS t ( a INT PRIMARY KEY , b TEXT NOT NULL DEFAULT 'x' , CHECK ( a > 0 ) )",
	"CREATE UNIQUE INDEX IF NOT EXISTS i ON t USING btree ( a , b DESC NULLS LAST ) WHERE a > 0",
	"CREATE MATERIALIZED VIEW IF NOT EXISTS m ( x ) AS ( a ) ",
	"CREATE OR REPLACE TEMPORARY VIEW IF NOT EXISTS v ( x , y ) AS ( b )",
	"DROP TABLE IF EXISTS t , u CASCADE",
	"DROP INDEX IF EXISTS i",
	"ALTER TABLE IF EXISTS t ADD COLUMN IF NOT EXISTS c INT NOT NULL DEFAULT 0",
	"ALTER TABLE t RENAME COLUMN a TO b",
	"TRUNCATE TABLE t , u RESTART IDENTITY CASCADE",
	"INSERT INTO t ( a , b ) VALUES ( 1 , 2 ) , ( 3 , 4 ) ON CONFLICT ( a ) DO NOTHING RETURNING a , b",
	"INSERT INTO t ( a ) VALUES ( 1 ) ON DUPLICATE KEY x",
	"DELETE FROM t USING u WHERE t.i = u.i RETURNING t.a",
	"MERGE INTO t USING u ON t.i = u.i WHEN MATCHED AND u.x > 1 THEN x WHEN NOT MATCHED THEN y",
	"SELECT DISTINCT ON ( a ) a , b AS x FROM t AS q LEFT OUTER JOIN u USING ( i ) WHERE a BETWEEN 1 AND 2 GROUP BY ROLLUP ( a , b ) HAVING COUNT ( * ) > 1 ORDER BY a DESC NULLS FIRST LIMIT 5 OFFSET 2",
	"SELECT a FROM t ORDER BY a FETCH FIRST 3 ROWS ONLY FOR UPDATE OF t SKIP LOCKED",
	"SELECT SUM ( a ) FILTER ( WHERE b > 0 ) OVER ( PARTITION BY c ORDER BY d ROWS BETWEEN UNBOUNDED PRECEDING AND CURRENT ROW ) FROM t WINDOW w AS ( ORDER BY e )",
	"SELECT CASE a WHEN 1 THEN 'x' ELSE 'y' END , CAST ( b AS VARCHAR ( 10 ) ) , c :: int , d [ 1 ] , EXTRACT ( YEAR FROM e ) , INTERVAL '1 day' FROM t",
	"SELECT a FROM t WHERE b IS NOT DISTINCT FROM c AND d NOT LIKE 'x%' ESCAPE '!' AND e NOT IN ( 1 , 2 ) AND f IS NOT NULL",
	"SELECT a FROM t NATURAL JOIN u CROSS JOIN v FULL OUTER JOIN w ON w.i = t.i , LATERAL ( x ) z",
	"SHOW TABLES FROM db LIKE 'x%'", "DESCRIBE t", "EXPLAIN ANALYZE x", "REFRESH MATERIALIZED VIEW CONCURRENTLY m", "GRANT x ON t TO u", "REPLACE INTO t ( a ) VALUES ( 1 )",
}
