package main

func extractRest8(l *loaded, genDir, jsonDir string) error { return nil }
