package main

import (
	"bytes"
	"fmt"
	"go/ast"
	"go/printer"
	"go/token"
	"go/types"
	"path/filepath"
	"sort"
	"strings"
)

type WriteSite struct {
	Func   string `json:"func"`
	Callee string `json:"callee"`
	Arg    string `json:"arg"`
}

// extractFsCalls: (1) the success-path sequence of file-system calls of replaceFileAtomically,
// (2) every call in cmd/gosqlx/cmd that writes a whole file, with its path argument.
func extractFsCalls(l *loaded) ([]string, []WriteSite, error) {
	p := l.pkgs["cmd/gosqlx/cmd"]
	if p == nil {
		return nil, nil, fmt.Errorf("cmd/gosqlx/cmd not loaded")
	}
	exprStr := func(e ast.Expr) string {
		var b bytes.Buffer
		_ = printer.Fprint(&b, token.NewFileSet(), e)
		return b.String()
	}
	var protocol []string
	var sites []WriteSite
	for _, f := range p.Syntax {
		for _, d := range f.Decls {
			fd, ok := d.(*ast.FuncDecl)
			if !ok || fd.Body == nil {
				continue
			}
			fk := funcKey(fd)
			// write sites
			ast.Inspect(fd.Body, func(n ast.Node) bool {
				ce, ok := n.(*ast.CallExpr)
				if !ok || len(ce.Args) == 0 {
					return true
				}
				name := ""
				switch fn := ce.Fun.(type) {
				case *ast.SelectorExpr:
					if o, ok := p.TypesInfo.Uses[fn.Sel].(*types.Func); ok && o.Pkg() != nil && o.Pkg().Path() == "os" &&
						(o.Name() == "WriteFile" || o.Name() == "Create" || o.Name() == "OpenFile") {
						name = "os." + o.Name()
					}
				case *ast.Ident:
					if fn.Name == "replaceFileAtomically" {
						name = fn.Name
					}
				}
				if name != "" {
					sites = append(sites, WriteSite{fk, name, exprStr(ce.Args[0])})
				}
				return true
			})
			if fd.Name.Name != "replaceFileAtomically" {
				continue
			}
			// success path: top-level statements; skip bodies of `if err != nil` and function literals
			var walk func(n ast.Node)
			walk = func(n ast.Node) {
				ast.Inspect(n, func(x ast.Node) bool {
					switch e := x.(type) {
					case *ast.FuncLit:
						return false
					case *ast.IfStmt:
						if e.Init != nil {
							walk(e.Init)
						}
						// `if err != nil {…}` bodies are failure paths; `if info, err := os.Stat(..); err == nil {…}` is not
						if be, ok := e.Cond.(*ast.BinaryExpr); ok && be.Op == token.NEQ {
							return false
						}
						walk(e.Body)
						return false
					case *ast.CallExpr:
						if se, ok := e.Fun.(*ast.SelectorExpr); ok {
							if o, ok := p.TypesInfo.Uses[se.Sel].(*types.Func); ok && o.Pkg() != nil && o.Pkg().Path() == "os" {
								protocol = append(protocol, o.Name())
							}
						}
					}
					return true
				})
			}
			walk(fd.Body)
		}
	}
	sort.Slice(sites, func(i, j int) bool {
		if sites[i].Func != sites[j].Func {
			return sites[i].Func < sites[j].Func
		}
		return sites[i].Arg < sites[j].Arg
	})
	return protocol, sites, nil
}

func extractRest8(l *loaded, genDir, jsonDir string) error {
	protocol, sites, err := extractFsCalls(l)
	if err != nil {
		return err
	}
	if err := writeJSON(jsonDir+"/fs_calls.json", map[string]any{"atomic_protocol": protocol, "write_sites": sites}); err != nil {
		return err
	}
	var b strings.Builder
	b.WriteString(genHeader)
	b.WriteString("namespace GoSQLXModel.Gen\n\n/-- success-path os calls of replaceFileAtomically, in order -/\n")
	fmt.Fprintf(&b, "def atomicProtocol : List String := %s\n\n", leanStrList(protocol))
	b.WriteString("/-- whole-file write sites of cmd/gosqlx/cmd: (function, callee, path argument) -/\ndef writeSites : List (String × String × String) := [")
	for i, s := range sites {
		if i > 0 {
			b.WriteString(", ")
		}
		fmt.Fprintf(&b, "(%s, %s, %s)", leanStr(s.Func), leanStr(s.Callee), leanStr(s.Arg))
	}
	b.WriteString("]\n\nend GoSQLXModel.Gen\n")
	if _, err := writeIfChanged(filepath.Join(genDir, "FsCalls.lean"), []byte(b.String())); err != nil {
		return err
	}
	return extractRest9(l, genDir, jsonDir)
}
