package main

import (
	"fmt"
	"go/ast"
	"go/token"
	"go/types"
	"path/filepath"
	"sort"
	"strings"

	"golang.org/x/tools/go/packages"
)

// SharedVar: one package-level variable of a library package and how it is written.
type SharedVar struct {
	Pkg    string   `json:"pkg"`
	Name   string   `json:"name"`
	Type   string   `json:"type"`
	Guard  string   `json:"guard"` // readonly | sync (Pool/Once/Mutex/atomic type) | atomic | mutex | once | unguarded | out-of-scope
	Writes []string `json:"writes"`
}

// MetricStep: one shared-memory access of a metrics Record* function, in program order.
type MetricStep struct {
	Func  string `json:"func"`
	Op    string `json:"op"` // load | add | store | cas | casloop | locked-map | plain-read | plain-write
	Field string `json:"field"`
}

var sharedRootPkgs = []string{"pkg/sql/tokenizer", "pkg/sql/parser", "pkg/gosqlx", "pkg/formatter", "pkg/sql/security",
	"pkg/linter", "pkg/linter/rules/whitespace", "pkg/linter/rules/keywords", "pkg/linter/rules/style", "pkg/metrics", "pkg/sql/keywords"}

type funcNode struct {
	pkg  *packages.Package
	decl *ast.FuncDecl
	key  string
}

// crossPackageReachable: functions reachable from the exported API of the root packages, resolving static calls
// by object identity and interface-method calls by method name over all loaded packages (conservative).
func crossPackageReachable(l *loaded) (map[string]bool, map[types.Object]string) {
	nodes := map[string]*funcNode{}
	byObj := map[types.Object]string{}
	byMethodName := map[string][]string{}
	for key, p := range l.pkgs {
		if !strings.HasPrefix(key, "pkg/") {
			continue
		}
		for _, f := range p.Syntax {
			for _, d := range f.Decls {
				fd, ok := d.(*ast.FuncDecl)
				if !ok || fd.Body == nil {
					continue
				}
				k := key + "::" + funcKey(fd)
				nodes[k] = &funcNode{p, fd, k}
				if o := p.TypesInfo.Defs[fd.Name]; o != nil {
					byObj[o] = k
				}
				if fd.Recv != nil {
					byMethodName[fd.Name.Name] = append(byMethodName[fd.Name.Name], k)
				}
			}
		}
	}
	adj := map[string][]string{}
	for k, n := range nodes {
		ast.Inspect(n.decl.Body, func(x ast.Node) bool {
			switch e := x.(type) {
			case *ast.SelectorExpr:
				if o := n.pkg.TypesInfo.Uses[e.Sel]; o != nil {
					if callee, ok := byObj[o]; ok {
						adj[k] = append(adj[k], callee)
					} else if fn, ok := o.(*types.Func); ok {
						if sig, ok := fn.Type().(*types.Signature); ok && sig.Recv() != nil {
							if _, isIface := sig.Recv().Type().Underlying().(*types.Interface); isIface {
								adj[k] = append(adj[k], byMethodName[fn.Name()]...)
							}
						}
					}
				}
			case *ast.Ident:
				if o := n.pkg.TypesInfo.Uses[e]; o != nil {
					if callee, ok := byObj[o]; ok {
						adj[k] = append(adj[k], callee)
					}
				}
			}
			return true
		})
	}
	rootSet := map[string]bool{}
	for _, r := range sharedRootPkgs {
		rootSet[r] = true
	}
	seen := map[string]bool{}
	var stack []string
	for k, n := range nodes {
		pk := strings.SplitN(k, "::", 2)[0]
		if rootSet[pk] && n.decl.Name.IsExported() {
			stack = append(stack, k)
		}
		if n.decl.Name.Name == "init" && n.decl.Recv == nil {
			stack = append(stack, k)
		}
	}
	for len(stack) > 0 {
		k := stack[len(stack)-1]
		stack = stack[:len(stack)-1]
		if seen[k] {
			continue
		}
		seen[k] = true
		stack = append(stack, adj[k]...)
	}
	return seen, byObj
}

func rootIdent(e ast.Expr) *ast.Ident {
	for {
		switch x := e.(type) {
		case *ast.Ident:
			return x
		case *ast.SelectorExpr:
			e = x.X
		case *ast.IndexExpr:
			e = x.X
		case *ast.StarExpr:
			e = x.X
		case *ast.ParenExpr:
			e = x.X
		case *ast.UnaryExpr:
			e = x.X
		default:
			return nil
		}
	}
}

func extractShared(l *loaded) ([]SharedVar, []MetricStep, error) {
	reach, _ := crossPackageReachable(l)
	// functions passed by name to (sync.Once).Do: their bodies run once, under the Once
	onceFuncs := map[string]bool{}
	for key, p := range l.pkgs {
		if !strings.HasPrefix(key, "pkg/") {
			continue
		}
		for _, f := range p.Syntax {
			ast.Inspect(f, func(x ast.Node) bool {
				ce, ok := x.(*ast.CallExpr)
				if !ok {
					return true
				}
				if se, ok := ce.Fun.(*ast.SelectorExpr); ok && se.Sel.Name == "Do" && len(ce.Args) == 1 {
					if fn, ok := p.TypesInfo.Uses[se.Sel].(*types.Func); ok && strings.Contains(fn.FullName(), "sync.Once") {
						if id, ok := ce.Args[0].(*ast.Ident); ok {
							onceFuncs[key+"::"+id.Name] = true
						}
					}
				}
				return true
			})
		}
	}
	// ... and never called directly
	for key, p := range l.pkgs {
		if !strings.HasPrefix(key, "pkg/") {
			continue
		}
		for _, f := range p.Syntax {
			ast.Inspect(f, func(x ast.Node) bool {
				if ce, ok := x.(*ast.CallExpr); ok {
					if id, ok := ce.Fun.(*ast.Ident); ok && onceFuncs[key+"::"+id.Name] {
						delete(onceFuncs, key+"::"+id.Name)
					}
				}
				return true
			})
		}
	}
	var vars []SharedVar
	keys := make([]string, 0, len(l.pkgs))
	for k := range l.pkgs {
		if strings.HasPrefix(k, "pkg/") {
			keys = append(keys, k)
		}
	}
	sort.Strings(keys)
	for _, key := range keys {
		p := l.pkgs[key]
		scope := p.Types.Scope()
		for _, name := range scope.Names() {
			v, ok := scope.Lookup(name).(*types.Var)
			if !ok {
				continue
			}
			ts := types.TypeString(v.Type(), func(pk *types.Package) string { return pk.Name() })
			sv := SharedVar{Pkg: key, Name: name, Type: ts, Guard: "readonly"}
			if strings.Contains(ts, "sync.Pool") || strings.Contains(ts, "sync.Once") || strings.HasPrefix(ts, "sync.") || strings.HasPrefix(ts, "atomic.") {
				sv.Guard = "sync"
				vars = append(vars, sv)
				continue
			}
			worst := 0 // 0 readonly, 1 guarded, 2 out-of-scope writer, 3 unguarded
			guardName := "readonly"
			for _, f := range p.Syntax {
				for _, d := range f.Decls {
					fd, ok := d.(*ast.FuncDecl)
					if !ok || fd.Body == nil {
						continue
					}
					fk := key + "::" + funcKey(fd)
					isInit := fd.Name.Name == "init" && fd.Recv == nil
					locked := false
					var visit func(n ast.Node, inAtomic, inOnce bool)
					record := func(pos token.Pos, how string, inAtomic, inOnce bool) {
						g := "unguarded"
						switch {
						case isInit:
							g = "init"
						case inAtomic:
							g = "atomic"
						case inOnce:
							g = "once"
						case locked:
							g = "mutex"
						}
						ps := l.fset.Position(pos)
						sv.Writes = append(sv.Writes, fmt.Sprintf("%s@%s:%d[%s]", funcKey(fd), filepath.Base(ps.Filename), ps.Line, g))
						lvl := 1
						if g == "unguarded" {
							lvl = 3
							if !reach[fk] {
								lvl = 2
							}
						}
						if g == "init" {
							lvl = 0
						}
						if lvl > worst {
							worst = lvl
							guardName = g
							if lvl == 2 {
								guardName = "out-of-scope"
							}
						}
						_ = how
					}
					visit = func(n ast.Node, inAtomic, inOnce bool) {
						ast.Inspect(n, func(x ast.Node) bool {
							if x == nil || x == n && false {
								return true
							}
							switch e := x.(type) {
							case *ast.CallExpr:
								if se, ok := e.Fun.(*ast.SelectorExpr); ok {
									if se.Sel.Name == "Lock" || se.Sel.Name == "RLock" {
										locked = true
									}
									if fn, ok := p.TypesInfo.Uses[se.Sel].(*types.Func); ok && fn.Pkg() != nil {
										if fn.Pkg().Path() == "sync/atomic" {
											for _, a := range e.Args {
												if ue, ok := a.(*ast.UnaryExpr); ok && ue.Op == token.AND {
													if id := rootIdent(ue.X); id != nil && p.TypesInfo.Uses[id] == v {
														if !strings.HasPrefix(fn.Name(), "Load") {
															record(e.Pos(), "atomic", true, inOnce)
														}
													}
												}
											}
											return false
										}
										if fn.Name() == "Do" && strings.Contains(fn.FullName(), "sync.Once") {
											for _, a := range e.Args {
												visit(a, inAtomic, true)
											}
											return false
										}
									}
								}
								if id, ok := e.Fun.(*ast.Ident); ok && id.Name == "delete" && len(e.Args) > 0 {
									if r := rootIdent(e.Args[0]); r != nil && p.TypesInfo.Uses[r] == v {
										record(e.Pos(), "delete", inAtomic, inOnce)
									}
								}
							case *ast.AssignStmt:
								for _, lhs := range e.Lhs {
									if _, isId := lhs.(*ast.Ident); isId && e.Tok == token.DEFINE {
										continue
									}
									if r := rootIdent(lhs); r != nil && p.TypesInfo.Uses[r] == v {
										record(e.Pos(), "assign", inAtomic, inOnce)
									}
								}
							case *ast.IncDecStmt:
								if r := rootIdent(e.X); r != nil && p.TypesInfo.Uses[r] == v {
									record(e.Pos(), "incdec", inAtomic, inOnce)
								}
							}
							return true
						})
					}
					visit(fd.Body, false, onceFuncs[fk])
				}
			}
			sv.Guard = guardName
			sort.Strings(sv.Writes)
			vars = append(vars, sv)
		}
	}
	// metrics programs
	var steps []MetricStep
	mp := l.pkgs["pkg/metrics"]
	if mp != nil {
		gm := mp.Types.Scope().Lookup("globalMetrics")
		for _, f := range mp.Syntax {
			for _, d := range f.Decls {
				fd, ok := d.(*ast.FuncDecl)
				if !ok || fd.Body == nil || fd.Recv != nil {
					continue
				}
				steps = append(steps, metricSteps(mp, fd, gm)...)
			}
		}
	}
	return vars, steps, nil
}

// metricSteps lists, in source order, the accesses a function makes to fields of globalMetrics.
func metricSteps(p *packages.Package, fd *ast.FuncDecl, gm types.Object) []MetricStep {
	var out []MetricStep
	fieldOf := func(e ast.Expr) string {
		if ue, ok := e.(*ast.UnaryExpr); ok && ue.Op == token.AND {
			e = ue.X
		}
		if se, ok := e.(*ast.SelectorExpr); ok {
			if id, ok := se.X.(*ast.Ident); ok && p.TypesInfo.Uses[id] == gm {
				return se.Sel.Name
			}
		}
		return ""
	}
	handled := map[ast.Node]bool{}
	locked := false
	var walk func(n ast.Node)
	walk = func(n ast.Node) {
		ast.Inspect(n, func(x ast.Node) bool {
			if x == nil || handled[x] {
				return false
			}
			switch e := x.(type) {
			case *ast.ForStmt:
				// for { cur := Load(f); if ... {break}; if CAS(f, cur, v) {break} }  => casloop
				if e.Cond == nil && e.Init == nil && e.Post == nil {
					var loadF, casF string
					ast.Inspect(e.Body, func(y ast.Node) bool {
						if ce, ok := y.(*ast.CallExpr); ok {
							if se, ok := ce.Fun.(*ast.SelectorExpr); ok {
								if fn, ok := p.TypesInfo.Uses[se.Sel].(*types.Func); ok && fn.Pkg() != nil && fn.Pkg().Path() == "sync/atomic" && len(ce.Args) > 0 {
									if strings.HasPrefix(fn.Name(), "Load") {
										loadF = fieldOf(ce.Args[0])
									}
									if strings.HasPrefix(fn.Name(), "CompareAndSwap") {
										casF = fieldOf(ce.Args[0])
									}
								}
							}
						}
						return true
					})
					if loadF != "" && loadF == casF {
						out = append(out, MetricStep{fd.Name.Name, "casloop", loadF})
						return false
					}
				}
			case *ast.CallExpr:
				if se, ok := e.Fun.(*ast.SelectorExpr); ok {
					if fn, ok := p.TypesInfo.Uses[se.Sel].(*types.Func); ok && fn.Pkg() != nil && fn.Pkg().Path() == "sync/atomic" && len(e.Args) > 0 {
						if f := fieldOf(e.Args[0]); f != "" {
							op := "atomic"
							switch {
							case strings.HasPrefix(fn.Name(), "Load"):
								op = "load"
							case strings.HasPrefix(fn.Name(), "Add"):
								op = "add"
							case strings.HasPrefix(fn.Name(), "Store"):
								op = "store"
							case strings.HasPrefix(fn.Name(), "CompareAndSwap"):
								op = "cas"
							}
							out = append(out, MetricStep{fd.Name.Name, op, f})
							for _, a := range e.Args {
								handled[a] = true
							}
							for _, a := range e.Args[1:] {
								handled[a] = false
								walk(a)
							}
							return false
						}
					}
					// method call on a field: globalMetrics.errorsMutex.Lock(), globalMetrics.startTime.Store(...)
					if inner, ok := se.X.(*ast.SelectorExpr); ok {
						if f := fieldOf(inner); f != "" {
							switch se.Sel.Name {
							case "Lock", "RLock":
								locked = true
							case "Unlock", "RUnlock":
								locked = false
							}
							handled[inner] = true
							for _, a := range e.Args {
								walk(a)
							}
							return false
						}
					}
				}
			case *ast.SelectorExpr:
				if f := fieldOf(e); f != "" {
					op := "plain-read"
					if locked {
						op = "locked-map"
					}
					out = append(out, MetricStep{fd.Name.Name, op, f})
					return false
				}
			case *ast.AssignStmt:
				for _, lhs := range e.Lhs {
					if se, ok := lhs.(*ast.SelectorExpr); ok {
						if f := fieldOf(se); f != "" && !locked {
							out = append(out, MetricStep{fd.Name.Name, "plain-write", f})
							handled[se] = true
						}
					}
				}
			case *ast.DeferStmt:
				// defer mu.Unlock(): the lock is held to the end of the function
				if se, ok := e.Call.Fun.(*ast.SelectorExpr); ok && (se.Sel.Name == "Unlock" || se.Sel.Name == "RUnlock") {
					return false
				}
			}
			return true
		})
	}
	walk(fd.Body)
	return out
}

func emitSharedLean(vars []SharedVar, steps []MetricStep, dir string) error {
	var b strings.Builder
	b.WriteString(genHeader)
	b.WriteString("namespace GoSQLXModel.Gen\n\n/-- package-level variables of the library packages: (package, name, guard) -/\n")
	b.WriteString("def sharedVars : List (String × String × String) := [\n")
	for i, v := range vars {
		sep := ","
		if i == len(vars)-1 {
			sep = ""
		}
		fmt.Fprintf(&b, "  (%s, %s, %s)%s\n", leanStr(v.Pkg), leanStr(v.Name), leanStr(v.Guard), sep)
	}
	b.WriteString("]\n\n/-- shared-memory accesses of the metrics functions in program order: (function, op, field) -/\n")
	b.WriteString("def metricSteps : List (String × String × String) := [\n")
	for i, s := range steps {
		sep := ","
		if i == len(steps)-1 {
			sep = ""
		}
		fmt.Fprintf(&b, "  (%s, %s, %s)%s\n", leanStr(s.Func), leanStr(s.Op), leanStr(s.Field), sep)
	}
	b.WriteString("]\n\nend GoSQLXModel.Gen\n")
	_, err := writeIfChanged(filepath.Join(dir, "SharedState.lean"), []byte(b.String()))
	return err
}
