package main

import (
	"fmt"
	"go/ast"
	"go/token"
	"path/filepath"
	"sort"
	"strconv"
	"strings"
)

// ScanSite: one `Finding{…}` literal of the tree scanner: the function it sits in, its pattern and
// severity constants, and whether its append is guarded by shouldInclude(finding.Severity).
type ScanSite struct {
	Func     string `json:"func"`
	Pattern  string `json:"pattern"`
	Severity string `json:"severity"`
	Guarded  bool   `json:"guarded"`
}

// extractScanTables reads pkg/sql/security/scanner.go: the function-name tables, the system-table
// lists, severityOrder, the node types scanNode dispatches on (and whether its callback always
// descends), and every Finding literal of the tree checks.
func extractRest9(l *loaded, genDir, jsonDir string) error {
	p := l.pkgs["pkg/sql/security"]
	if p == nil {
		return fmt.Errorf("pkg/sql/security not loaded")
	}
	strKeys := func(cl *ast.CompositeLit) []string {
		var out []string
		for _, e := range cl.Elts {
			var x ast.Expr = e
			if kv, ok := e.(*ast.KeyValueExpr); ok {
				x = kv.Key
			}
			if bl, ok := x.(*ast.BasicLit); ok && bl.Kind == token.STRING {
				s, _ := strconv.Unquote(bl.Value)
				out = append(out, s)
			}
		}
		return out
	}
	lists := map[string][]string{}
	sevOrder := map[string]int{}
	var dispatch []string
	type extraDescent struct {
		Type  string   `json:"type"`
		Paths []string `json:"paths"`
	}
	var extra []extraDescent
	descends := true
	var sites []ScanSite
	constVal := func(e ast.Expr) string {
		if id, ok := e.(*ast.Ident); ok {
			if tv, ok := p.TypesInfo.Types[e]; ok && tv.Value != nil {
				s, err := strconv.Unquote(tv.Value.ExactString())
				if err == nil {
					return s
				}
			}
			return id.Name
		}
		return "?"
	}
	for _, f := range p.Syntax {
		for _, d := range f.Decls {
			switch dd := d.(type) {
			case *ast.GenDecl:
				for _, sp := range dd.Specs {
					vs, ok := sp.(*ast.ValueSpec)
					if !ok {
						continue
					}
					for i, n := range vs.Names {
						if i >= len(vs.Values) {
							continue
						}
						cl, ok := vs.Values[i].(*ast.CompositeLit)
						if !ok {
							continue
						}
						switch n.Name {
						case "systemTablePrefixes", "systemTableNames":
							lists[n.Name] = strKeys(cl)
						case "severityOrder":
							for _, e := range cl.Elts {
								kv := e.(*ast.KeyValueExpr)
								if bl, ok := kv.Value.(*ast.BasicLit); ok {
									v, _ := strconv.Atoi(bl.Value)
									sevOrder[constVal(kv.Key)] = v
								}
							}
						}
					}
				}
			case *ast.FuncDecl:
				if dd.Body == nil || dd.Recv == nil {
					continue
				}
				name := dd.Name.Name
				if name == "checkFunctionCall" {
					ast.Inspect(dd.Body, func(n ast.Node) bool {
						as, ok := n.(*ast.AssignStmt)
						if !ok || len(as.Lhs) != 1 || len(as.Rhs) != 1 {
							return true
						}
						id, ok := as.Lhs[0].(*ast.Ident)
						cl, ok2 := as.Rhs[0].(*ast.CompositeLit)
						if ok && ok2 && (id.Name == "timeBasedFuncs" || id.Name == "dangerousFuncs") {
							lists[id.Name] = strKeys(cl)
						}
						return true
					})
				}
				if name == "scanNode" {
					ast.Inspect(dd.Body, func(n ast.Node) bool {
						fl, ok := n.(*ast.FuncLit)
						if !ok {
							return true
						}
						for _, st := range fl.Body.List {
							if ts, ok := st.(*ast.TypeSwitchStmt); ok {
								for _, c := range ts.Body.List {
									cc := c.(*ast.CaseClause)
									for _, t := range cc.List {
										if se, ok := t.(*ast.StarExpr); ok {
											if sel, ok := se.X.(*ast.SelectorExpr); ok {
												// a case that returns false for a non-nil node stops the descent
												stops := false
												for _, bs := range cc.Body {
													if rs, ok := bs.(*ast.ReturnStmt); ok && len(rs.Results) == 1 {
														if id, ok := rs.Results[0].(*ast.Ident); ok && id.Name == "false" {
															stops = true
														}
													}
												}
												if stops {
													descends = false
												}
												dispatch = append(dispatch, sel.Sel.Name)
												// explicit descents: s.scanNode(e.<path>, result)
												var paths []string
												for _, bs := range cc.Body {
													ast.Inspect(bs, func(x ast.Node) bool {
														ce, ok := x.(*ast.CallExpr)
														if !ok || len(ce.Args) == 0 {
															return true
														}
														if fs, ok := ce.Fun.(*ast.SelectorExpr); ok && fs.Sel.Name == "scanNode" {
															var parts []string
															var cur ast.Expr = ce.Args[0]
															for {
																se, ok := cur.(*ast.SelectorExpr)
																if !ok {
																	break
																}
																parts = append([]string{se.Sel.Name}, parts...)
																cur = se.X
															}
															paths = append(paths, strings.Join(parts, "."))
														}
														return true
													})
												}
												if len(paths) > 0 {
													extra = append(extra, extraDescent{sel.Sel.Name, paths})
												}
											}
										}
									}
								}
							}
						}
						// every `return` of the callback that is not `return true` must sit directly under `if <x> == nil`
						var chk func(n ast.Node, nilGuard bool)
						chk = func(n ast.Node, nilGuard bool) {
							switch x := n.(type) {
							case *ast.ReturnStmt:
								if len(x.Results) != 1 {
									descends = false
									return
								}
								if id, ok := x.Results[0].(*ast.Ident); !ok || (id.Name != "true" && !nilGuard) {
									descends = false
								}
							case *ast.IfStmt:
								g := false
								if be, ok := x.Cond.(*ast.BinaryExpr); ok && be.Op == token.EQL {
									if id, ok := be.Y.(*ast.Ident); ok && id.Name == "nil" {
										g = true
									}
								}
								for _, st := range x.Body.List {
									chk(st, g)
								}
								if x.Else != nil {
									chk(x.Else, false)
								}
							case *ast.BlockStmt:
								for _, st := range x.List {
									chk(st, false)
								}
							case *ast.TypeSwitchStmt:
								chk(x.Body, false)
							case *ast.SwitchStmt:
								chk(x.Body, false)
							case *ast.CaseClause:
								for _, st := range x.Body {
									chk(st, false)
								}
							case *ast.ForStmt:
								chk(x.Body, false)
							case *ast.RangeStmt:
								chk(x.Body, false)
							}
						}
						chk(fl.Body, false)
						// the callback's final statement must be `return true`
						last := fl.Body.List[len(fl.Body.List)-1]
						if rs, ok := last.(*ast.ReturnStmt); !ok || len(rs.Results) != 1 {
							descends = false
						} else if id, ok := rs.Results[0].(*ast.Ident); !ok || id.Name != "true" {
							descends = false
						}
						return false
					})
				}
				switch name {
				case "checkBinaryExpression", "checkOrInjection", "checkUnionInjection", "checkFunctionCall":
					// each Finding literal, then whether the enclosing block appends it under shouldInclude
					var visit func(blk *ast.BlockStmt)
					visit = func(blk *ast.BlockStmt) {
						var cur *ScanSite
						for _, st := range blk.List {
							switch s := st.(type) {
							case *ast.AssignStmt:
								if len(s.Rhs) == 1 {
									if cl, ok := s.Rhs[0].(*ast.CompositeLit); ok {
										if id, ok := cl.Type.(*ast.Ident); ok && id.Name == "Finding" {
											site := ScanSite{Func: name}
											for _, e := range cl.Elts {
												kv := e.(*ast.KeyValueExpr)
												switch kv.Key.(*ast.Ident).Name {
												case "Pattern":
													site.Pattern = constVal(kv.Value)
												case "Severity":
													site.Severity = constVal(kv.Value)
												}
											}
											sites = append(sites, site)
											cur = &sites[len(sites)-1]
										}
									}
								}
							case *ast.IfStmt:
								if cur != nil {
									if ce, ok := s.Cond.(*ast.CallExpr); ok {
										if sel, ok := ce.Fun.(*ast.SelectorExpr); ok && sel.Sel.Name == "shouldInclude" && len(s.Body.List) == 1 {
											if as, ok := s.Body.List[0].(*ast.AssignStmt); ok {
												if c2, ok := as.Rhs[0].(*ast.CallExpr); ok {
													if id, ok := c2.Fun.(*ast.Ident); ok && id.Name == "append" {
														cur.Guarded = true
													}
												}
											}
											cur = nil
											continue
										}
									}
								}
								visit(s.Body)
								if eb, ok := s.Else.(*ast.BlockStmt); ok {
									visit(eb)
								}
							case *ast.BlockStmt:
								visit(s)
							case *ast.RangeStmt:
								visit(s.Body)
							case *ast.ForStmt:
								visit(s.Body)
							}
						}
					}
					visit(dd.Body)
				}
			}
		}
	}
	sort.SliceStable(sites, func(i, j int) bool { return sites[i].Func < sites[j].Func })
	type kv struct {
		K string
		V int
	}
	var so []kv
	for k, v := range sevOrder {
		so = append(so, kv{k, v})
	}
	sort.Slice(so, func(i, j int) bool { return so[i].V < so[j].V || (so[i].V == so[j].V && so[i].K < so[j].K) })
	for _, k := range []string{"timeBasedFuncs", "dangerousFuncs"} {
		sort.Strings(lists[k])
	}
	if err := writeJSON(jsonDir+"/scan_tables.json", map[string]any{"lists": lists, "severity_order": so, "dispatch": dispatch, "extra_descents": extra, "descends": descends, "sites": sites}); err != nil {
		return err
	}
	var b strings.Builder
	b.WriteString(genHeader)
	b.WriteString("namespace GoSQLXModel.Gen.Scan\n\n")
	fmt.Fprintf(&b, "def timeBasedFuncs : List String := %s\n", leanStrList(lists["timeBasedFuncs"]))
	fmt.Fprintf(&b, "def dangerousFuncs : List String := %s\n", leanStrList(lists["dangerousFuncs"]))
	fmt.Fprintf(&b, "def systemTablePrefixes : List String := %s\n", leanStrList(lists["systemTablePrefixes"]))
	fmt.Fprintf(&b, "def systemTableNames : List String := %s\n", leanStrList(lists["systemTableNames"]))
	b.WriteString("/-- severityOrder, ascending -/\ndef severityOrder : List (String × Nat) := [")
	for i, e := range so {
		if i > 0 {
			b.WriteString(", ")
		}
		fmt.Fprintf(&b, "(%s, %d)", leanStr(e.K), e.V)
	}
	b.WriteString("]\n")
	fmt.Fprintf(&b, "/-- node types the ast.Inspect callback of scanNode dispatches on -/\ndef dispatch : List String := %s\n", leanStrList(dispatch))
	b.WriteString("/-- explicit descents of the callback: s.scanNode(e.<head>.<rest>, result) per dispatched type -/\ndef extraDescents : List (String × List (String × String)) := [")
	for i, e := range extra {
		if i > 0 {
			b.WriteString(", ")
		}
		fmt.Fprintf(&b, "(%s, [", leanStr(e.Type))
		for j, pth := range e.Paths {
			if j > 0 {
				b.WriteString(", ")
			}
			head, rest, _ := strings.Cut(pth, ".")
			fmt.Fprintf(&b, "(%s, %s)", leanStr(head), leanStr(rest))
		}
		b.WriteString("])")
	}
	b.WriteString("]\n")
	fmt.Fprintf(&b, "/-- the callback returns true for every non-nil node (the traversal is never pruned) -/\ndef descends : Bool := %v\n", descends)
	b.WriteString("/-- Finding literals of the tree checks: (function, pattern, severity, appended under shouldInclude) -/\ndef sites : List (String × String × String × Bool) := [")
	for i, s := range sites {
		if i > 0 {
			b.WriteString(", ")
		}
		fmt.Fprintf(&b, "(%s, %s, %s, %v)", leanStr(s.Func), leanStr(s.Pattern), leanStr(s.Severity), s.Guarded)
	}
	b.WriteString("]\n\nend GoSQLXModel.Gen.Scan\n")
	if _, err := writeIfChanged(filepath.Join(genDir, "ScanTables.lean"), []byte(b.String())); err != nil {
		return err
	}
	return extractRest10(l, genDir, jsonDir)
}
