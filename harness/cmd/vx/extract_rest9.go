package main

func extractRest9(l *loaded, genDir, jsonDir string) error { return nil }
