package main

import (
	"fmt"
	"go/ast"
	"go/token"
	"go/types"
	"path/filepath"
	"sort"
	"strings"
)

// InstanceTable: the reusable-object bookkeeping of Parser and Tokenizer.
type InstanceTable struct {
	Type    string              `json:"type"`
	Fields  []string            `json:"fields"`
	Config  []string            `json:"config"`  // holder configuration (set through options / setters)
	Reads   []string            `json:"reads"`   // fields read by any method of the type
	Entries map[string][]string `json:"entries"` // entry point -> fields assigned before its first loop (transitively through prologue calls)
	Resets  map[string][]string `json:"resets"`  // Reset / Release -> fields assigned
	// depth bookkeeping: every `recv.depth++` must be immediately followed by `defer func(){recv.depth--}()`
	DepthIncs []DepthInc `json:"depth_incs"`
	// fields (other than per-call ones) assigned outside constructors, option functions, setters and resets
	ConfigWrites []string `json:"config_writes"`
	CtxRestored  bool     `json:"ctx_restored"` // ParseContext: `p.ctx = ctx` is followed by `defer func(){p.ctx = nil}()`
	// (field, guard): every read of field happens under `if recv.guard && ...` (in the condition after the
	// guard, or in the body), so the field is dead while the boolean guard field is false
	GuardedReads [][2]string `json:"guarded_reads"`
}

type DepthInc struct {
	Func   string `json:"func"`
	Paired bool   `json:"paired"`
	Pos    string `json:"pos"`
}

func extractInstance(l *loaded, pkgKey, typeName string, entries, resets, config, configSetters []string) (*InstanceTable, error) {
	p := l.pkgs[pkgKey]
	if p == nil {
		return nil, fmt.Errorf("%s not loaded", pkgKey)
	}
	tn, ok := p.Types.Scope().Lookup(typeName).(*types.TypeName)
	if !ok {
		return nil, fmt.Errorf("%s.%s not found", pkgKey, typeName)
	}
	st := tn.Type().Underlying().(*types.Struct)
	it := &InstanceTable{Type: typeName, Entries: map[string][]string{}, Resets: map[string][]string{}, Config: config}
	fieldSet := map[string]bool{}
	for i := 0; i < st.NumFields(); i++ {
		it.Fields = append(it.Fields, st.Field(i).Name())
		fieldSet[st.Field(i).Name()] = true
	}
	methods := map[string]*ast.FuncDecl{}
	for _, f := range p.Syntax {
		for _, d := range f.Decls {
			if fd, ok := d.(*ast.FuncDecl); ok && fd.Recv != nil && fd.Body != nil && recvName(fd) == typeName {
				methods[fd.Name.Name] = fd
			}
		}
	}
	recvOf := func(fd *ast.FuncDecl) types.Object {
		if len(fd.Recv.List[0].Names) == 1 {
			return p.TypesInfo.Defs[fd.Recv.List[0].Names[0]]
		}
		return nil
	}
	isRecvField := func(e ast.Expr, recv types.Object) (string, bool) {
		se, ok := e.(*ast.SelectorExpr)
		if !ok {
			return "", false
		}
		id, ok := se.X.(*ast.Ident)
		if !ok || recv == nil || p.TypesInfo.Uses[id] != recv || !fieldSet[se.Sel.Name] {
			return "", false
		}
		return se.Sel.Name, true
	}
	// assigned fields of a function up to (not including) its first for statement at top level;
	// calls `recv.M()` as expression statements at top level contribute M's assigned set (any position in M)
	var assignedBeforeLoop func(name string, wholeBody bool, seen map[string]bool) map[string]bool
	assignedBeforeLoop = func(name string, wholeBody bool, seen map[string]bool) map[string]bool {
		out := map[string]bool{}
		fd := methods[name]
		if fd == nil || seen[name] {
			return out
		}
		seen[name] = true
		recv := recvOf(fd)
		for _, s := range fd.Body.List {
			if _, isFor := s.(*ast.ForStmt); isFor && !wholeBody {
				break
			}
			if _, isRange := s.(*ast.RangeStmt); isRange && !wholeBody {
				break
			}
			if es, ok := s.(*ast.ExprStmt); ok {
				if ce, ok := es.X.(*ast.CallExpr); ok {
					if se, ok := ce.Fun.(*ast.SelectorExpr); ok {
						if id, ok := se.X.(*ast.Ident); ok && recv != nil && p.TypesInfo.Uses[id] == recv && methods[se.Sel.Name] != nil {
							for k := range assignedBeforeLoop(se.Sel.Name, true, seen) {
								out[k] = true
							}
							continue
						}
					}
				}
			}
			if ds, ok := s.(*ast.DeferStmt); ok {
				_ = ds
				continue // deferred assignments happen at exit, not before the first read
			}
			ast.Inspect(s, func(n ast.Node) bool {
				if _, ok := n.(*ast.FuncLit); ok {
					return false
				}
				if as, ok := n.(*ast.AssignStmt); ok {
					for _, lhs := range as.Lhs {
						if f, ok := isRecvField(lhs, recv); ok {
							out[f] = true
						}
					}
				}
				return true
			})
		}
		return out
	}
	// a wrapper entry point that only delegates (`return p.Other(...)`) inherits Other's set
	delegate := func(name string) string {
		fd := methods[name]
		if fd == nil {
			return ""
		}
		var target string
		ast.Inspect(fd.Body, func(n ast.Node) bool {
			if rs, ok := n.(*ast.ReturnStmt); ok && len(rs.Results) == 1 {
				if ce, ok := rs.Results[0].(*ast.CallExpr); ok {
					if se, ok := ce.Fun.(*ast.SelectorExpr); ok {
						if id, ok := se.X.(*ast.Ident); ok && p.TypesInfo.Uses[id] == recvOf(fd) && methods[se.Sel.Name] != nil {
							target = se.Sel.Name
						}
					}
				}
			}
			return true
		})
		return target
	}
	for _, e := range entries {
		if methods[e] == nil {
			it.Entries[e] = nil
			continue
		}
		set := assignedBeforeLoop(e, false, map[string]bool{})
		// follow `return recv.Other(...)` delegation chains
		seenD := map[string]bool{e: true}
		for d := delegate(e); d != "" && !seenD[d]; d = delegate(d) {
			seenD[d] = true
			for k := range assignedBeforeLoop(d, false, map[string]bool{}) {
				set[k] = true
			}
		}
		it.Entries[e] = sortedKeys(set)
	}
	for _, r := range resets {
		it.Resets[r] = sortedKeys(assignedBeforeLoop(r, true, map[string]bool{}))
	}
	// reads, depth increments, config writes
	reads := map[string]bool{}
	unguarded := map[string]map[string]bool{} // field -> set of guards under which it is read ("" = none)
	cfgSet := map[string]bool{}
	for _, c := range config {
		cfgSet[c] = true
	}
	allowedWriters := map[string]bool{}
	for _, r := range resets {
		allowedWriters[r] = true
	}
	for _, r := range configSetters {
		allowedWriters[r] = true
	}
	cfgWrites := map[string]bool{}
	names := make([]string, 0, len(methods))
	for n := range methods {
		names = append(names, n)
	}
	sort.Strings(names)
	for _, name := range names {
		fd := methods[name]
		recv := recvOf(fd)
		lhsSet := map[ast.Expr]bool{}
		ast.Inspect(fd.Body, func(n ast.Node) bool {
			if as, ok := n.(*ast.AssignStmt); ok {
				for _, lhs := range as.Lhs {
					if f, ok := isRecvField(lhs, recv); ok {
						if as.Tok == token.ASSIGN || as.Tok == token.DEFINE {
							lhsSet[lhs] = true
						}
						if cfgSet[f] && !allowedWriters[name] {
							cfgWrites[name+"."+f] = true
						}
					}
				}
			}
			return true
		})
		// reads, with the validity guard (if any) under which each read happens
		var visit func(n ast.Node, guard string)
		visit = func(n ast.Node, guard string) {
			ast.Inspect(n, func(x ast.Node) bool {
				if x == nil {
					return false
				}
				if ifs, ok := x.(*ast.IfStmt); ok && x != n {
					g := guard
					// leftmost conjunct of the condition
					cond := ifs.Cond
					for {
						if be, ok := cond.(*ast.BinaryExpr); ok && be.Op == token.LAND {
							cond = be.X
							continue
						}
						break
					}
					if f, ok := isRecvField(cond, recv); ok && guard == "" {
						g = f
						reads[f] = true
						if unguarded[f] == nil {
							unguarded[f] = map[string]bool{}
						}
						unguarded[f][""] = true
					}
					if ifs.Init != nil {
						visit(ifs.Init, guard)
					}
					visitCond(ifs.Cond, g, recv, isRecvField, lhsSet, reads, unguarded)
					visit(ifs.Body, g)
					if ifs.Else != nil {
						visit(ifs.Else, guard)
					}
					return false
				}
				if e, ok := x.(ast.Expr); ok {
					if f, ok := isRecvField(e, recv); ok && !lhsSet[e] {
						reads[f] = true
						if unguarded[f] == nil {
							unguarded[f] = map[string]bool{}
						}
						unguarded[f][guard] = true
					}
				}
				return true
			})
		}
		visit(fd.Body, "")
		// depth++ pairing
		var walkList func(list []ast.Stmt)
		walkList = func(list []ast.Stmt) {
			for i, s := range list {
				if inc, ok := s.(*ast.IncDecStmt); ok && inc.Tok == token.INC {
					if f, ok := isRecvField(inc.X, recv); ok && f == "depth" {
						paired := false
						if i+1 < len(list) {
							if ds, ok := list[i+1].(*ast.DeferStmt); ok {
								if fl, ok := ds.Call.Fun.(*ast.FuncLit); ok && len(fl.Body.List) == 1 {
									if dec, ok := fl.Body.List[0].(*ast.IncDecStmt); ok && dec.Tok == token.DEC {
										if g, ok := isRecvField(dec.X, recv); ok && g == "depth" {
											paired = true
										}
									}
								}
							}
						}
						pos := l.fset.Position(inc.Pos())
						it.DepthIncs = append(it.DepthIncs, DepthInc{name, paired, fmt.Sprintf("%s:%d", filepath.Base(pos.Filename), pos.Line)})
					}
				}
				ast.Inspect(s, func(n ast.Node) bool {
					switch b := n.(type) {
					case *ast.BlockStmt:
						walkList(b.List)
						return false
					case *ast.CaseClause:
						walkList(b.Body)
						return false
					case *ast.CommClause:
						walkList(b.Body)
						return false
					}
					return true
				})
			}
		}
		walkList(fd.Body.List)
	}
	// function-level depth manipulation other than the idiom (e.g. `p.depth--` outside a defer, `p.depth = x`)
	it.Reads = sortedKeys(reads)
	for _, f := range it.Reads {
		gs := unguarded[f]
		if len(gs) == 1 && !gs[""] {
			for g := range gs {
				it.GuardedReads = append(it.GuardedReads, [2]string{f, g})
			}
		}
	}
	it.ConfigWrites = sortedKeys(cfgWrites)
	// ctx restoration in ParseContext
	if fd := methods["ParseContext"]; fd != nil {
		recv := recvOf(fd)
		for i, s := range fd.Body.List {
			if as, ok := s.(*ast.AssignStmt); ok && len(as.Lhs) == 1 {
				if f, ok := isRecvField(as.Lhs[0], recv); ok && f == "ctx" && i+1 < len(fd.Body.List) {
					if ds, ok := fd.Body.List[i+1].(*ast.DeferStmt); ok {
						if fl, ok := ds.Call.Fun.(*ast.FuncLit); ok && len(fl.Body.List) == 1 {
							if a2, ok := fl.Body.List[0].(*ast.AssignStmt); ok && len(a2.Lhs) == 1 {
								if g, ok := isRecvField(a2.Lhs[0], recv); ok && g == "ctx" {
									if id, ok := a2.Rhs[0].(*ast.Ident); ok && id.Name == "nil" {
										it.CtxRestored = true
									}
								}
							}
						}
					}
				}
			}
		}
	}
	return it, nil
}

func visitCond(cond ast.Expr, g string, recv types.Object, isRecvField func(ast.Expr, types.Object) (string, bool),
	lhsSet map[ast.Expr]bool, reads map[string]bool, unguarded map[string]map[string]bool) {
	ast.Inspect(cond, func(x ast.Node) bool {
		if e, ok := x.(ast.Expr); ok {
			if f, ok := isRecvField(e, recv); ok && !lhsSet[e] && f != g {
				reads[f] = true
				if unguarded[f] == nil {
					unguarded[f] = map[string]bool{}
				}
				unguarded[f][g] = true
			}
		}
		return true
	})
}

func emitInstanceLean(name string, it *InstanceTable, dir string) error {
	var b strings.Builder
	b.WriteString(genHeader)
	b.WriteString("namespace GoSQLXModel.Gen\n\n")
	fmt.Fprintf(&b, "def %sFields : List String := %s\n", name, leanStrList(it.Fields))
	fmt.Fprintf(&b, "def %sConfig : List String := %s\n", name, leanStrList(it.Config))
	fmt.Fprintf(&b, "def %sReads : List String := %s\n", name, leanStrList(it.Reads))
	keys := func(m map[string][]string) []string {
		ks := make([]string, 0, len(m))
		for k := range m {
			ks = append(ks, k)
		}
		sort.Strings(ks)
		return ks
	}
	fmt.Fprintf(&b, "/-- entry point ↦ fields assigned before its first loop -/\ndef %sEntries : List (String × List String) := [", name)
	for i, k := range keys(it.Entries) {
		if i > 0 {
			b.WriteString(", ")
		}
		fmt.Fprintf(&b, "(%s, %s)", leanStr(k), leanStrList(it.Entries[k]))
	}
	b.WriteString("]\n")
	fmt.Fprintf(&b, "/-- Reset / Release ↦ fields assigned -/\ndef %sResets : List (String × List String) := [", name)
	for i, k := range keys(it.Resets) {
		if i > 0 {
			b.WriteString(", ")
		}
		fmt.Fprintf(&b, "(%s, %s)", leanStr(k), leanStrList(it.Resets[k]))
	}
	b.WriteString("]\n")
	fmt.Fprintf(&b, "/-- every `depth++` site with whether the deferred `depth--` follows immediately -/\ndef %sDepthIncs : List (String × Bool) := [", name)
	for i, d := range it.DepthIncs {
		if i > 0 {
			b.WriteString(", ")
		}
		fmt.Fprintf(&b, "(%s, %s)", leanStr(d.Func+"@"+d.Pos), leanBool(d.Paired))
	}
	b.WriteString("]\n")
	fmt.Fprintf(&b, "def %sConfigWrites : List String := %s\n", name, leanStrList(it.ConfigWrites))
	fmt.Fprintf(&b, "def %sCtxRestored : Bool := %s\n", name, leanBool(it.CtxRestored))
	fmt.Fprintf(&b, "/-- (field, guard): every read of the field is under `if recv.guard && …` -/\ndef %sGuardedReads : List (String × String) := [", name)
	for i, gr := range it.GuardedReads {
		if i > 0 {
			b.WriteString(", ")
		}
		fmt.Fprintf(&b, "(%s, %s)", leanStr(gr[0]), leanStr(gr[1]))
	}
	b.WriteString("]\n")
	b.WriteString("\nend GoSQLXModel.Gen\n")
	_, err := writeIfChanged(filepath.Join(dir, strings.ToUpper(name[:1])+name[1:]+"Instance.lean"), []byte(b.String()))
	return err
}
