package main

import (
	"context"
	"encoding/hex"
	"fmt"
	"github.com/ajitpratap0/GoSQLX/pkg/gosqlx"
	"os"
	"reflect"
	"runtime/debug"
	"strings"
	"time"

	"github.com/ajitpratap0/GoSQLX/pkg/models"
	"github.com/ajitpratap0/GoSQLX/pkg/sql/ast"
	"github.com/ajitpratap0/GoSQLX/pkg/sql/keywords"
	"github.com/ajitpratap0/GoSQLX/pkg/sql/parser"
	"github.com/ajitpratap0/GoSQLX/pkg/sql/tokenizer"
)

func init() { props["C08"] = runC08 }

// countCtx turns done at the k-th poll (k counted from 0); k < 0 never fires
type countCtx struct {
	context.Context
	k, n int
	err  error
}

func (c *countCtx) Err() error {
	i := c.n
	c.n++
	if c.k >= 0 && i >= c.k {
		return c.err
	}
	return nil
}
func (c *countCtx) Done() <-chan struct{} { return nil }

func tokenizeFresh(sql string) []models.TokenWithSpan {
	t, _ := tokenizer.New()
	toks, err := t.Tokenize([]byte(sql))
	if err != nil {
		return nil
	}
	return toks
}

type parserCfg struct {
	strict  bool
	dialect string
}

func (c parserCfg) opts() []parser.ParserOption {
	var o []parser.ParserOption
	if c.strict {
		o = append(o, parser.WithStrictMode())
	}
	if c.dialect != "" {
		o = append(o, parser.WithDialect(c.dialect))
	}
	return o
}

// parserCall runs one entry point; the outcome is a canonical string (tree dump + error text)
func parserCall(p *parser.Parser, entry string, toks []models.TokenWithSpan, cancelAt int) string {
	var tree *ast.AST
	var err error
	switch entry {
	case "Parse":
		tree, err = p.ParseFromModelTokens(toks)
	case "ParseWithPositions":
		tree, err = p.ParseFromModelTokensWithPositions(toks)
	case "ParseContext":
		tree, err = p.ParseContextFromModelTokens(&countCtx{Context: context.Background(), k: cancelAt, err: context.Canceled}, toks)
	case "ParseWithRecovery":
		stmts, errs := p.ParseWithRecoveryFromModelTokens(toks)
		var b strings.Builder
		for _, s := range stmts {
			b.WriteString(dumpNode(s) + ";")
		}
		for _, e := range errs {
			b.WriteString("ERR:" + e.Error() + ";")
		}
		return b.String()
	case "ParseRaw":
		conv, cerr := parser.VerifConvert(toks)
		if cerr != nil {
			return "conv-error"
		}
		tree, err = p.Parse(conv.Tokens)
	case "ParseContextRaw":
		conv, cerr := parser.VerifConvert(toks)
		if cerr != nil {
			return "conv-error"
		}
		tree, err = p.ParseContext(&countCtx{Context: context.Background(), k: cancelAt, err: context.Canceled}, conv.Tokens)
	case "ParseWithPositionsResult":
		conv, cerr := parser.VerifConvert(toks)
		if cerr != nil {
			return "conv-error"
		}
		tree, err = p.ParseWithPositions(conv)
	case "ParseWithRecoveryRaw":
		conv, cerr := parser.VerifConvert(toks)
		if cerr != nil {
			return "conv-error"
		}
		stmts, errs := p.ParseWithRecovery(conv.Tokens)
		var b strings.Builder
		for _, s := range stmts {
			b.WriteString(dumpNode(s) + ";")
		}
		for _, e := range errs {
			b.WriteString("ERR:" + e.Error() + ";")
		}
		return b.String()
	}
	out := ""
	if tree != nil {
		out = dumpNode(tree)
		defer ast.ReleaseAST(tree)
	}
	if err != nil {
		out += "ERR:" + err.Error()
	}
	return out
}

var c08Inputs = []string{
	"SELECT a FROM t",
	"SELECT a, b FROM t WHERE a = 1 AND b IN (1, 2)",
	"SELECT a FROM t WHERE",
	"SELECT FROM",
	"SELECT a FROM t WHERE NOT NOT NOT )",
	"SELECT NOT ) FROM t",
	"SELECT a\nFROM t\nWHERE a = )",
	"\n\n\n   SELECT a FROM\n\n   t WHERE ( ( ( a",
	"SELECT a FROM t ORDER BY a LIMIT )",
	"INSERT INTO t (a) VALUES (1); SELECT",
	"SELECT (((((((((((((((((((((((((((((((((((((((((((((((((( a ))))))))))))))))))))))))))))))))))))))))))))))))))",
	"SELECT " + strings.Repeat("(", 120) + "a" + strings.Repeat(")", 120),
	"SELECT a FROM t WHERE " + strings.Repeat("NOT ", 60) + ")",
	"SELECT a FROM t WHERE " + strings.Repeat("NOT ", 98) + "a",
	"WITH c AS (SELECT 1) SELECT * FROM c",
	"WITH c AS (SELECT ) SELECT * FROM c",
	"SELECT a FROM t; ; SELECT b FROM u",
	";",
	"",
	"SELECT CASE WHEN a THEN 1 ELSE END FROM t",
	"SELECT a FROM t WHERE a BETWEEN 1 AND",
	"SELECT a FROM t WHERE MATCH(a) AGAINST (MATCH(a) AGAINST (",
	// failures inside every kind of quoted form, and statements whose quoted forms need decoding
	"SELECT 'abc\\q'", "SELECT 'leak\\", "SELECT 'it''s", "SELECT \"a\"\"b", "SELECT `x``y", "SELECT $$ab", "SELECT $t$ab$u$", "SELECT 'two\nlines", "SELECT 1e", "SELECT 'é\\q'",
	"SELECT 'x'", "SELECT 'don''t', \"q\"\"r\", `s``t`, $$u$$, 'v\\nw' FROM t", "SELECT a FROM t WHERE b = 'x' AND c = )", "SELECT a\n\n  FROM t WHERE\n b = 'multi\nline' AND )",
}

func runC08(c *runCtx) {
	res := c.res
	res.Rule = "random histories (length 1-8) of entry-point calls (5 parser entry points, valid/invalid/deeply nested/cancelled-at-k inputs), option changes, Reset, Release and pool put/get on ONE instance, followed by a probe compared with the same call on a freshly constructed instance with the same configuration; tokenizer likewise; distinct = distinct (history, probe) pairs"
	debug.SetGCPercent(-1)
	defer debug.SetGCPercent(100)
	entries := []string{"Parse", "ParseWithPositions", "ParseContext", "ParseWithRecovery", "ParseRaw", "ParseContextRaw", "ParseWithPositionsResult", "ParseWithRecoveryRaw"}
	tokCache := map[string][]models.TokenWithSpan{}
	toksOf := func(sql string) []models.TokenWithSpan {
		if t, ok := tokCache[sql]; ok {
			return t
		}
		t := tokenizeFresh(sql)
		tokCache[sql] = t
		return t
	}
	gen := newSQLGen(c.rng.Fork())
	pickInput := func() string {
		if c.rng.Chance(70) {
			return c08Inputs[c.rng.Intn(len(c08Inputs))]
		}
		s := gen.Statement()
		if c.rng.Chance(40) && len(s) > 10 { // corrupt by truncation
			s = s[:c.rng.Intn(len(s))]
		}
		return s
	}
	n := c.n(4000, 100000)
	for it := 0; it < n; it++ {
		p := parser.NewParser()
		cfg := parserCfg{}
		var hist []string
		steps := 1 + c.rng.Intn(8)
		for s := 0; s < steps; s++ {
			switch c.rng.Intn(12) {
			case 0:
				p.Reset()
				cfg = parserCfg{}
				hist = append(hist, "Reset")
			case 1:
				p.Release()
				cfg = parserCfg{}
				hist = append(hist, "Release")
			case 2:
				parser.PutParser(p)
				p = parser.GetParser()
				cfg = parserCfg{}
				hist = append(hist, "Put/Get")
			case 3:
				cfg.strict = true
				p.ApplyOptions(parser.WithStrictMode())
				hist = append(hist, "ApplyOptions(strict)")
			case 4:
				cfg.dialect = c.rng.Pick([]string{"mysql", "postgresql", "sqlite"})
				p.ApplyOptions(parser.WithDialect(cfg.dialect))
				hist = append(hist, "ApplyOptions(dialect="+cfg.dialect+")")
			default:
				e := entries[c.rng.Intn(len(entries))]
				in := pickInput()
				k := -1
				if e == "ParseContext" && c.rng.Bool() {
					k = c.rng.Intn(12)
				}
				toks := toksOf(in)
				if toks == nil {
					continue
				}
				_ = parserCall(p, e, toks, k)
				hist = append(hist, fmt.Sprintf("%s(%q,cancel@%d)", e, truncate(in, 60), k))
			}
		}
		// probe
		e := entries[c.rng.Intn(len(entries))]
		in := pickInput()
		toks := toksOf(in)
		if toks == nil {
			continue
		}
		k := -1
		if e == "ParseContext" && c.rng.Chance(30) {
			k = c.rng.Intn(8)
		}
		got := parserCall(p, e, toks, k)
		fresh := parser.NewParser(cfg.opts()...)
		want := parserCall(fresh, e, toks, k)
		canon := strings.Join(hist, ";") + "|" + e + "|" + in
		res.count(canon, len(hist) > 0)
		if it < 3 {
			res.sample(map[string]any{"history": hist, "probe": e, "input": truncate(in, 80)})
		}
		if got != want {
			res.fail("parser-history-dependent:"+e, "the outcome of a call on a reused parser differs from the same call on a fresh parser with the same configuration",
				map[string]any{"history": hist, "probe": e, "input": in, "cancel_at": k, "config": fmt.Sprintf("%+v", cfg)},
				map[string]any{"reused": truncate(got, 400), "fresh": truncate(want, 400)})
		}
		if p.VerifDepth() != 0 {
			res.fail("parser-depth-leak", fmt.Sprintf("recursion depth counter is %d after the calls returned", p.VerifDepth()),
				map[string]any{"history": hist, "probe": e, "input": in}, nil)
		}
		// the pool hands every holder an object of its own, whatever releases happened before (also double releases of
		// the objects whose Release is documented as safe to repeat)
		if it%5 == 0 {
			if toks := toksOf("SELECT 1; SELECT FROM; SELECT 2"); toks != nil {
				if conv, err := parser.VerifConvert(toks); err == nil {
					rr := parser.ParseMultiWithRecovery(conv.Tokens)
					rr.Release()
					rr.Release()
				}
			}
			tree, _ := gosqlx.Parse("SELECT d.a FROM (SELECT a FROM t) d JOIN u ON d.a = u.a WHERE x IS NULL")
			if tree != nil {
				ast.ReleaseAST(tree)
			}
			pa, pb := parser.GetParser(), parser.GetParser()
			if pa == pb {
				res.fail("pool-hands-out-one-object-twice:parser", "two holders obtained the same parser from the pool at the same time", map[string]any{"history": hist}, nil)
			}
			pa.ApplyOptions(parser.WithStrictMode(), parser.WithDialect("mysql"))
			if got, want := parserCall(pb, "Parse", toksOf("SELECT a FROM t LIMIT 1, 2"), -1), parserCall(parser.NewParser(), "Parse", toksOf("SELECT a FROM t LIMIT 1, 2"), -1); got != want {
				res.fail("parser-history-dependent:pooled-pair", "a pooled parser behaves like another holder configured it", map[string]any{"history": hist}, map[string]any{"got": truncate(got, 200), "want": truncate(want, 200)})
			}
			parser.PutParser(pa)
			parser.PutParser(pb)
			ta, tb := tokenizer.GetTokenizer(), tokenizer.GetTokenizer()
			if ta == tb {
				res.fail("pool-hands-out-one-object-twice:tokenizer", "two holders obtained the same tokenizer from the pool at the same time", map[string]any{"history": hist}, nil)
			}
			tokenizer.PutTokenizer(ta)
			tokenizer.PutTokenizer(tb)
		}
		// reset / release / pool: field-wise equal to a new parser
		switch c.rng.Intn(3) {
		case 0:
			p.Reset()
			if !reflect.DeepEqual(p, parser.NewParser()) {
				res.fail("parser-reset-not-fresh", "after Reset the parser differs field-wise from a new one", map[string]any{"history": hist}, fmt.Sprintf("%+v", p))
			}
		case 1:
			p.Release()
			if !reflect.DeepEqual(p, parser.NewParser()) {
				res.fail("parser-release-not-fresh", "after Release the parser differs field-wise from a new one", map[string]any{"history": hist}, fmt.Sprintf("%+v", p))
			}
		case 2:
			parser.PutParser(p)
			q := parser.GetParser()
			if !reflect.DeepEqual(q, parser.NewParser()) {
				res.fail("parser-pooled-not-fresh", "a parser obtained from the pool differs field-wise from a new one", map[string]any{"history": hist}, fmt.Sprintf("%+v", q))
			}
			parser.PutParser(q)
		}
	}

	// tokenizer histories
	tokOutcome := func(t *tokenizer.Tokenizer, in string, k int) string {
		var toks []models.TokenWithSpan
		var err error
		if k == -2 {
			toks, err = t.Tokenize([]byte(in))
		} else {
			toks, err = t.TokenizeContext(&countCtx{Context: context.Background(), k: k, err: context.Canceled}, []byte(in))
		}
		return fmt.Sprintf("%s|%s|%v", fmtToks(toks), fmtComments(t.Comments), err)
	}
	tokInputs := []string{
		"SELECT a FROM t", "SELECT\n1", "SELECT 'ab\ncd', $$oops", "a\tb\n\tc -- x\n/* y\nz */ d", "'unterminated",
		"          SELECT id FROM users WHERE x = 'unterminated", "\n\n\n\n\n\n\n\n                                  SELECT \"bad\nident", "SELECT 1e", "",
		"   \n\t  ", strings.Repeat("a ", 250), "SELECT 'it''s' || \"q\" /* c */ -- d", "\t\t\t\tx @ y", "SELECT $tag$ body $tag$ , $1",
		// failures inside every kind of quoted form (bad escape, input ending after a backslash, never closed), and texts
		// whose quoted forms need decoding or not
		"SELECT 'abc\\q'", "SELECT 'leak\\", "SELECT 'it''s", "SELECT \"a\"\"b", "SELECT `x``y", "SELECT $t$ab$u$", "SELECT 'é\\q'", "SELECT 'q''a",
		"SELECT 'x'", "SELECT 'x', \"y\", `z`", "SELECT 'don''t', \"q\"\"r\", `s``t`, $$u$$, 'v\\nw'", "SELECT 'ü', \"ü\"",
	}
	for it := 0; it < n/2; it++ {
		t, _ := tokenizer.New()
		var hist []string
		dialectSet := false
		for s := 0; s < 1+c.rng.Intn(6); s++ {
			switch c.rng.Intn(8) {
			case 0:
				t.Reset()
				hist = append(hist, "Reset")
			case 1:
				tokenizer.PutTokenizer(t)
				t = tokenizer.GetTokenizer()
				dialectSet = false
				hist = append(hist, "Put/Get")
			case 2:
				t.SetDialect(keywords.DialectMySQL)
				dialectSet = true
				hist = append(hist, "SetDialect(mysql)")
			default:
				in := tokInputs[c.rng.Intn(len(tokInputs))]
				k := -2
				if c.rng.Chance(30) {
					k = c.rng.Intn(4)
				}
				_ = tokOutcome(t, in, k)
				hist = append(hist, fmt.Sprintf("Tokenize(%q,%d)", truncate(in, 40), k))
			}
		}
		in := tokInputs[c.rng.Intn(len(tokInputs))]
		if c.rng.Chance(30) {
			in = gen.Statement()
		}
		got := tokOutcome(t, in, -2)
		fresh, _ := tokenizer.New()
		if dialectSet {
			fresh.SetDialect(keywords.DialectMySQL)
		}
		want := tokOutcome(fresh, in, -2)
		res.count("tok|"+strings.Join(hist, ";")+"|"+in, true)
		if got != want {
			res.fail("tokenizer-history-dependent", "the outcome of Tokenize on a reused tokenizer differs from a fresh tokenizer",
				map[string]any{"history": hist, "input": in}, map[string]any{"reused": truncate(got, 400), "fresh": truncate(want, 400)})
		}
		tokenizer.PutTokenizer(t)
		q := tokenizer.GetTokenizer()
		nt, _ := tokenizer.New()
		if q.Dialect() != nt.Dialect() {
			res.fail("tokenizer-pooled-dialect", "a tokenizer obtained from the pool reports its previous holder's dialect",
				map[string]any{"history": hist}, string(q.Dialect()))
		}
		tokenizer.PutTokenizer(q)
	}
	// what a call answers in this process — after everything above has run here: thousands of parses, failures of every
	// kind, pooled instances, package-level caches of the helper packages warmed by other inputs — is what it answers in a
	// process that has done nothing else (a fresh child process per input is the reference)
	{
		probes := []string{"SELECT (1", "SELECT a FROM t ORDER", "SELECT a FROM t GROUP", "DELETE t", "UPDATE t a", "INSERT INTO t VALUES", "SELECT a FROM t WHERE (b = 1", "SELECT CASE WHEN a THEN 1",
			"SELECT a FROM t JOIN u", "SELECT a FROM", "CREATE TABLE t (a INT", "SELECT CAST(a AS", "SELECT a FROM t LIMIT", "WITH c AS (SELECT 1", "SELECT a b c", "SELECT 'open", "SELECT a FROM t WHERE a IN (1,",
			"SELECT f(1,", "MERGE INTO t USING u", "SELECT a FROM t UNION", "ALTER TABLE t", "DROP", "SELECT a FROM t WHERE a BETWEEN 1", "SELECT a FROM t ORDER BY a NULLS", "SELECT 1 FROM t FETCH FIRST"}
		g3 := newSQLGen(c.rng.Fork())
		g3.Plain = true
		for len(probes) < c.n(70, 500) {
			if cs := corruptions(c.rng, g3.Statement(), 2); len(cs) > 0 {
				probes = append(probes, cs...)
			}
		}
		// accepted statements too (their trees are part of the answer): the corpus and statements with several nodes of
		// every pooled kind; before the comparison every probe is parsed and its tree released here, twice — what a
		// released tree leaves in the process-wide pools must not show in the next tree
		accepted := append([]string{}, builtinCorpus...)
		accepted = append(accepted, "SELECT m[7] FROM t", "SELECT a[1], b[2][3], c[1:2] FROM t", "SELECT * FROM u WHERE (a, b) IN ((1, 2), (3, 4))", "SELECT f(a), g(b, c), h(f(d)) FROM t",
			"SELECT CASE WHEN a THEN 1 END, CASE b WHEN 1 THEN 2 ELSE 3 END FROM t", "SELECT CAST(a AS INT), b::text FROM t", "SELECT ARRAY[1, 2], ARRAY[3] FROM t",
			"SELECT SUM(a) OVER (PARTITION BY b ORDER BY c ROWS BETWEEN 1 PRECEDING AND CURRENT ROW) FROM t", "SELECT a BETWEEN 1 AND 2, b IN (1, 2), c LIKE 'x' FROM t",
			"INSERT INTO t (a, b) VALUES (1, 2), (3, 4) ON CONFLICT (a) DO UPDATE SET b = 1 RETURNING a", "UPDATE t SET a = 1, b = 2 FROM u WHERE t.i = u.i", "MERGE INTO t USING u ON t.i = u.i WHEN MATCHED THEN DELETE",
			"WITH c (x) AS (SELECT 1) SELECT x FROM c UNION ALL SELECT 2", "SELECT a FROM t JOIN u USING (i, j) LEFT JOIN v ON v.k = t.k", "SELECT EXTRACT(YEAR FROM d), INTERVAL '1 day' FROM t",
			"CREATE TABLE t (a INT PRIMARY KEY, b TEXT NOT NULL DEFAULT 'x', CHECK (a > 0))", "SELECT a FROM t WHERE EXISTS (SELECT 1 FROM u) AND b = ANY (SELECT c FROM v)")
		if c.quick && len(accepted) > 140 {
			accepted = accepted[len(accepted)-140:]
		}
		for round := 0; round < 2; round++ {
			for _, in := range accepted {
				if t, err := gosqlx.Parse(in); err == nil {
					ast.ReleaseAST(t)
				}
				_ = gosqlx.Validate(in)
			}
		}
		probes = append(probes, accepted...)
		for _, in := range probes {
			fresh := newChildPool()
			ref := fresh.Run("x:errtext", []byte(in), 20*time.Second)
			fresh.Close()
			// immediately before the call that is compared: the same text parsed and its tree released here (what a
			// released tree leaves in the pools is found by the very next parse — a garbage collection in between would
			// empty the pools and hide it)
			if t, err := gosqlx.Parse(in); err == nil {
				ast.ReleaseAST(t)
			}
			here := c08ErrTexts([]byte(in))
			if os.Getenv("VX_VERBOSE") != "" && strings.Contains(in, "m[7]") {
				hb, _ := hex.DecodeString(here)
				fmt.Println("HERE", truncate(string(hb), 400))
			}
			res.count("fresh-process|"+in, true)
			if ref == "crash" || ref == "hang" || ref == "child-start-failed" {
				res.stat("fresh-process-reference-failed")
				continue
			}
			if ref != here {
				a, _ := hex.DecodeString(ref)
				b, _ := hex.DecodeString(here)
				res.fail("answer-differs-from-fresh-process", "what a call returns in this (long-running) process — error texts, or the tree — differs from what it returns in a process that has done nothing else", map[string]any{"input": in},
					map[string]any{"fresh_process": truncate(string(a), 500), "this_process": truncate(string(b), 500)})
			}
		}
	}
}

// c08ErrTexts: the full error texts of the byte-string entry points on one input (hex, entries separated by \x00)
func c08ErrTexts(in []byte) string {
	var parts []string
	t1, e1 := gosqlx.Parse(string(in))
	parts = append(parts, fmt.Sprint(e1))
	if e1 == nil && t1 != nil {
		parts = append(parts, dumpNode(t1))
		ast.ReleaseAST(t1)
	}
	parts = append(parts, fmt.Sprint(gosqlx.Validate(string(in))))
	parts = append(parts, fmt.Sprint(parser.Validate(string(in))))
	_, errs := gosqlx.ParseWithRecovery(string(in))
	for _, e := range errs {
		parts = append(parts, fmt.Sprint(e))
	}
	return hex.EncodeToString([]byte(strings.Join(parts, "\x00")))
}

func init() {
	childExtras["errtext"] = func(data []byte) string { return c08ErrTexts(data) }
}
