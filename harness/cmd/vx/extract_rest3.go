package main

func extractRest3(l *loaded, genDir, jsonDir string) error { return nil }
