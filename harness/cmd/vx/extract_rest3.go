package main

func extractRest3(l *loaded, genDir, jsonDir string) error {
	pi, err := extractInstance(l, "pkg/sql/parser", "Parser",
		[]string{"Parse", "ParseContext", "ParseWithPositions", "ParseWithRecovery", "parseWithRecovery"},
		[]string{"Reset", "Release"},
		[]string{"strict", "dialect"},
		[]string{"ApplyOptions"})
	if err != nil {
		return err
	}
	if err := writeJSON(jsonDir+"/parser_instance.json", pi); err != nil {
		return err
	}
	if err := emitInstanceLean("parser", pi, genDir); err != nil {
		return err
	}
	ti, err := extractInstance(l, "pkg/sql/tokenizer", "Tokenizer",
		[]string{"Tokenize", "TokenizeContext"},
		[]string{"Reset"},
		[]string{"keywords", "dialect", "logger"},
		[]string{"SetDialect", "SetLogger"})
	if err != nil {
		return err
	}
	if err := writeJSON(jsonDir+"/tokenizer_instance.json", ti); err != nil {
		return err
	}
	if err := emitInstanceLean("tokenizer", ti, genDir); err != nil {
		return err
	}
	return extractRest4(l, genDir, jsonDir)
}
