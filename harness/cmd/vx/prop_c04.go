package main

import (
	"encoding/hex"
	"encoding/json"
	"fmt"
	"os"
	"strings"

	goerrors "github.com/ajitpratap0/GoSQLX/pkg/errors"
	"github.com/ajitpratap0/GoSQLX/pkg/gosqlx"
	"github.com/ajitpratap0/GoSQLX/pkg/models"
	"github.com/ajitpratap0/GoSQLX/pkg/sql/ast"
	"github.com/ajitpratap0/GoSQLX/pkg/sql/tokenizer"
)

func init() { props["C04"] = runC04 }

// lexReal tokenizes with a fresh tokenizer and renders the result in the driver's `lex` format.
// lexReal tokenizes with, in turn, a fresh tokenizer, one long-lived instance that is reused call after call (now and
// then after a tiny multi-line input, so that a stale position cache would show) and a pooled instance taken after
// other holders used the pool: the result must not depend on which (C08), so every comparison made on the answer
// also covers reuse.
var (
	lexRealCalls int
	lexSharedTk  *tokenizer.Tokenizer
)

func lexReal(input []byte) (canon string, toks []models.TokenWithSpan, comments []models.Comment, err error) {
	lexRealCalls++
	var tk *tokenizer.Tokenizer
	var nerr error
	switch lexRealCalls % 3 {
	case 1:
		if lexSharedTk == nil {
			lexSharedTk, nerr = tokenizer.New()
		}
		tk = lexSharedTk
		if nerr == nil && lexRealCalls%2 == 0 {
			_, _ = tk.Tokenize([]byte([]string{"\n;", "\t\na", "a\n\n", "\n\n'x"}[(lexRealCalls/6)%4]))
		}
	case 2:
		pollutePools(lexRealCalls / 3)
		tk = tokenizer.GetTokenizer()
		defer tokenizer.PutTokenizer(tk)
	default:
		tk, nerr = tokenizer.New()
	}
	if nerr != nil {
		return "NEW-FAILED", nil, nil, nerr
	}
	toks, err = tk.Tokenize(input)
	toks = append([]models.TokenWithSpan{}, toks...)
	if err != nil {
		code, line, col := "?", -9, -9
		if e, ok := err.(*goerrors.Error); ok {
			code, line, col = string(e.Code), e.Location.Line, e.Location.Column
		}
		return fmt.Sprintf("ERR %s %d %d", code, line, col), nil, nil, err
	}
	comments = append([]models.Comment{}, tk.Comments...)
	var ts, cs []string
	for _, t := range toks {
		ts = append(ts, fmt.Sprintf("%d:%s:%d:%d.%d.%d.%d", int(t.Token.Type), hex.EncodeToString([]byte(t.Token.Value)), t.Token.Quote,
			t.Start.Line, t.Start.Column, t.End.Line, t.End.Column))
	}
	for _, c := range comments {
		b, in := 0, 0
		if c.Style == models.BlockComment {
			b = 1
		}
		if c.Inline {
			in = 1
		}
		cs = append(cs, fmt.Sprintf("%d:%s:%d.%d.%d.%d:%d", b, hex.EncodeToString([]byte(c.Text)), c.Start.Line, c.Start.Column, c.End.Line, c.End.Column, in))
	}
	return "OK " + strings.Join(ts, " ") + "|" + strings.Join(cs, " "), toks, comments, nil
}

// sameLex compares the model answer with the real one; an error located through the tokenizer's internal
// bookkeeping (model says -1 -1) is compared by code only.
func sameLex(model, real string) bool {
	if model == real {
		return true
	}
	if strings.HasSuffix(model, " -1 -1") && strings.HasPrefix(real, strings.TrimSuffix(model, "-1 -1")) {
		return true
	}
	return false
}

// ---- reference lexical grammar ------------------------------------------------------------------------

type lexeme struct {
	text  string // spelling
	kind  string // word | number | string | qident | btident | op | placeholder | dollar
	value string // decoded value the token must carry
	feat  string // feature label for known-finding keys
}

var refOperators = []string{"(", ")", "[", "]", ",", ";", ".", "+", "-", "*", "/", "%", "=", "=>", "<", "<=", "<>", "<@", ">", ">=", "!", "!=", "!~", "!~*",
	":", "::", "|", "||", "&", "&&", "@", "@>", "@@", "#", "#>", "#>>", "#-", "?", "?|", "?&", "~", "~*", "->", "->>"}

var refWords = []string{"SELECT", "FROM", "WHERE", "a", "b1", "_x", "tbl", "JOIN", "ON", "AND", "NOT", "NULL", "AS", "IN", "BY", "x_y_9", "naïve", "Ünï", "日本", "col̃", "संख्या१", "col１", "عمود٣", "x२y", "a_１", "ñ‿b", "LIKE",
	"GROUP", "ORDER", "LEFT", "RIGHT", "INNER", "OUTER", "CROSS", "NATURAL", "FULL", "GROUPING", "left", "Order",
	"INSERT", "VALUES", "UPDATE", "SET", "DELETE", "CASE", "WHEN", "END", "UNION", "ALL", "LIMIT", "OFFSET", "DESC", "IS", "BETWEEN", "EXISTS", "WITH"}

var refCompoundFirst = []string{"GROUP", "ORDER", "LEFT", "RIGHT", "INNER", "OUTER", "CROSS", "NATURAL", "FULL", "GROUPING"}

func (g *lexGen) lexeme() lexeme {
	r := g.r
	switch r.Intn(12) {
	case 0, 1, 2:
		w := r.Pick(refWords)
		switch r.Intn(4) {
		case 0:
			w = strings.ToLower(w)
		case 1:
			w = strings.ToUpper(w)
		}
		return lexeme{w, "word", w, "word"}
	case 3:
		// numbers in all forms
		n := fmt.Sprint(r.Intn(1000))
		switch r.Intn(5) {
		case 1:
			n += "." + fmt.Sprint(r.Intn(100))
		case 2:
			n += "e" + fmt.Sprint(r.Intn(20))
		case 3:
			n += "." + fmt.Sprint(r.Intn(10)) + "E-" + fmt.Sprint(r.Intn(9))
		case 4:
			n += "e+" + fmt.Sprint(r.Intn(9))
		}
		return lexeme{n, "number", n, "number"}
	case 4, 5:
		// single-quoted string with doubled quotes / escapes / newlines / non-ASCII
		parts := []struct{ txt, val, feat string }{{"ab", "ab", ""}, {"''", "'", "doubled-quote"}, {" ", " ", ""}, {"\\n", "\n", "escape"}, {"\\\\", "\\", "escape"}, {"\\'", "'", "escape"},
			{"\\t", "\t", "escape"}, {"é", "é", ""}, {"\n", "\n", "multiline"}, {"--x", "--x", "comment-like"}, {"/*y*/", "/*y*/", "comment-like"}, {"\"", "\"", ""}, {"GROUP BY", "GROUP BY", "compound-like"}, {"\\\"", "\"", "escape"}, {"\\r", "\r", "escape"}}
		var txt, val strings.Builder
		feat := "string"
		for i := r.Intn(4); i > 0; i-- {
			p := parts[r.Intn(len(parts))]
			txt.WriteString(p.txt)
			val.WriteString(p.val)
			if p.feat != "" {
				feat = "string-" + p.feat
			}
		}
		t, v := txt.String(), val.String()
		// a string that starts or ends with a doubled quote spells '''…: excluded here, covered by the fixed catalogue
		if strings.HasPrefix(t, "''") || strings.HasSuffix(t, "''") || t == "" {
			t, v = "s"+t+"s", "s"+v+"s"
		}
		return lexeme{"'" + t + "'", "string", v, feat}
	case 6:
		names := []struct{ txt, val string }{{"col", "col"}, {"my col", "my col"}, {"select", "select"}, {"a\"\"b", "a\"b"}, {"GROUP BY", "GROUP BY"}, {"é x", "é x"}, {"a'b", "a'b"}}
		n := names[r.Intn(len(names))]
		return lexeme{"\"" + n.txt + "\"", "qident", n.val, "quoted-identifier"}
	case 7:
		names := []struct{ txt, val string }{{"col", "col"}, {"my col", "my col"}, {"from", "from"}, {"a``b", "a`b"}}
		n := names[r.Intn(len(names))]
		return lexeme{"`" + n.txt + "`", "btident", n.val, "backtick-identifier"}
	case 8:
		switch r.Intn(4) {
		case 0:
			n := fmt.Sprint(1 + r.Intn(20))
			return lexeme{"$" + n, "placeholder", "$" + n, "placeholder-dollar-number"}
		case 1:
			return lexeme{"?", "op", "?", "op"}
		case 2:
			w := r.Pick([]string{"name", "p1", "user_id"})
			return lexeme{"@" + w, "placeholder", "@" + w, "placeholder-at-name"}
		default:
			w := r.Pick([]string{"name", "p1"})
			return lexeme{":" + w, "colon-name", w, "placeholder-colon-name"}
		}
	case 9:
		tag := r.Pick([]string{"", "fn", "body_1"})
		content := r.Pick([]string{"", "x", "it's", "a $ b", "line1\nline2", "$other$ z"})
		return lexeme{"$" + tag + "$" + content + "$" + tag + "$", "dollar", content, "dollar-quoted"}
	default:
		o := r.Pick(refOperators)
		return lexeme{o, "op", o, "op"}
	}
}

type lexGen struct{ r *Rng }

func isWordByte(c byte) bool {
	return c == '_' || c >= 0x80 || (c >= 'a' && c <= 'z') || (c >= 'A' && c <= 'Z') || (c >= '0' && c <= '9')
}

// needsSep: would writing b directly after a merge or change either token?  (conservative: true is always safe)
func needsSep(a, b lexeme) bool {
	la, fb := a.text[len(a.text)-1], b.text[0]
	if (a.kind == "word" || a.kind == "number" || a.kind == "placeholder" || a.kind == "colon-name") && isWordByte(fb) {
		return true
	}
	if a.kind == "number" && (fb == '.' || b.kind == "number") {
		return true
	}
	if a.kind == "op" && a.text == "." && b.kind == "number" {
		return false
	}
	if a.kind == "op" && b.kind == "op" {
		return true // operator adjacency is covered exhaustively elsewhere
	}
	if a.kind == "op" {
		// a + first byte of b is the beginning of a longer operator
		for _, o := range refOperators {
			if len(o) > len(a.text) && strings.HasPrefix(o, a.text+string(fb)) {
				return true
			}
		}
	}
	if a.kind == "op" && (a.text == "@" || a.text == ":" || a.text == "$") {
		return true
	}
	if a.kind == "op" && (fb == '$' || fb == '@' || fb == ':' || fb == '\'' || fb == '"' || fb == '`') && strings.ContainsAny(a.text, "@:$#?") {
		return true
	}
	if (a.kind == "string" || a.kind == "qident" || a.kind == "btident") && (fb == la) {
		return true // '' would read as a doubled quote
	}
	if la == '-' && fb == '-' || la == '/' && fb == '*' {
		return true
	}
	if a.kind == "placeholder" && strings.HasPrefix(a.text, "$") && (fb == '$') {
		return true
	}
	if a.kind == "dollar" && (isWordByte(fb) || fb == '$') {
		return true
	}
	if a.kind == "op" && a.text == "-" && b.text[0] == '>' {
		return true
	}
	return false
}

var refSeps = []string{" ", "  ", "\t", "\n", "\r\n", " \n ", " -- c\n", "/* c */", " /* multi\nline */ ", "\n-- x y\n", "/**/"}

type expTok struct{ kind, value string }

// expectedTokens: the (kind, value) sequence the lexeme list must produce, compound keywords merged the way the
// tokenizer documents (two adjacent words forming a compound keyword, separated by blanks only).
func (g *lexGen) sequence(n int) (string, []expTok, []string, map[string]bool) {
	var sb strings.Builder
	var exp []expTok
	var comments []string
	feats := map[string]bool{}
	var prev *lexeme
	for i := 0; i < n; i++ {
		l := g.lexeme()
		if prev != nil {
			sep := ""
			if needsSep(*prev, l) || g.r.Intn(3) != 0 {
				sep = g.r.Pick(refSeps)
			}
			// a word that could start a compound keyword is kept apart from a following word by a comment or
			// followed by a non-word, so that the expected sequence stays one token per lexeme
			if prev.kind == "word" && l.kind == "word" {
				up := strings.ToUpper(prev.text)
				for _, c := range refCompoundFirst {
					if up == c {
						sep = " /* c */ "
					}
				}
			}
			if strings.Contains(sep, "--") {
				comments = append(comments, strings.TrimRight(strings.TrimLeft(sep, " \n"), "\n"))
			} else if strings.Contains(sep, "/*") {
				comments = append(comments, strings.TrimSpace(sep))
			}
			sb.WriteString(sep)
		}
		sb.WriteString(l.text)
		feats[l.feat] = true
		if l.kind == "colon-name" {
			exp = append(exp, expTok{"op", ":"}, expTok{"word", l.value})
		} else {
			exp = append(exp, expTok{l.kind, l.value})
		}
		ll := l
		prev = &ll
	}
	return sb.String(), exp, comments, feats
}

func tokKind(t models.Token) string {
	switch t.Type {
	case models.TokenTypeNumber:
		return "number"
	case models.TokenTypeSingleQuotedString, models.TokenTypeString, models.TokenTypeTripleSingleQuotedString:
		return "string"
	case models.TokenTypeDoubleQuotedString:
		return "qident"
	case models.TokenTypePlaceholder:
		return "placeholder"
	case models.TokenTypeDollarQuotedString:
		return "dollar"
	case models.TokenTypeEOF:
		return "eof"
	}
	if t.Word != nil {
		return "word"
	}
	if t.Type == models.TokenTypeIdentifier {
		return "btident"
	}
	return "op"
}

func runC04(c *runCtx) {
	res := c.res
	res.Rule = "(1) oracle: random lexeme sequences of the reference lexical grammar (words incl. Unicode and every keyword case, numbers in all forms, strings with doubled quotes/escapes/newlines/comment-like and keyword-like content, quoted and backtick identifiers, placeholders, dollar-quoted strings, every operator) joined by every separator class (none where legal, blanks, tabs, newlines, CRLF, line and block comments): the token list must be exactly one token per lexeme with its kind and decoded value, then exactly one EOF, each comment captured once with its exact text; (2) layout independence: re-spelling the same lexemes with other separators and other keyword case gives the same kinds and values (values of words compared case-insensitively) and the same parse verdict; (3) exhaustive: every ordered pair of operators x {adjacent, blank, comment}; every operator followed by every ASCII byte; (4) correspondence: the Lean tokenizer (driver op lex: types, values, quotes, start/end line.column of every token and comment, error code and location) equals Tokenizer.Tokenize on all of the above plus random byte strings (valid UTF-8 or not) and corrupted statements (distinct = distinct inputs)"
	drv := c.driver()
	seen := map[string]bool{}
	corr := func(input []byte) (string, []models.TokenWithSpan, []models.Comment, error) {
		real, toks, cms, err := lexReal(input)
		if !seen[string(input)] {
			seen[string(input)] = true
			res.count(string(input), true)
			if err != nil {
				res.stat("outcome:" + strings.Join(strings.Fields(real)[:2], " "))
			} else {
				res.stat("outcome:OK")
			}
		}
		if drv != nil && len(input) < 100000 {
			ans, derr := drv.Ask("lex", hex.EncodeToString(input))
			if derr == nil {
				res.CorrCases++
				if !sameLex(ans, real) {
					res.corrFail("lex-model", "Lean tokenizer differs from Tokenizer.Tokenize", map[string]any{"input_hex": hex.EncodeToString(input), "input": string(input)}, map[string]any{"model": ans, "real": real})
				}
			}
		}
		return real, toks, cms, err
	}
	g := &lexGen{r: c.rng.Fork()}
	// (1) + (2)
	for i := 0; i < c.n(3000, 150000); i++ {
		text, exp, comments, feats := g.sequence(1 + g.r.Intn(8))
		_, toks, cms, err := corr([]byte(text))
		wit := map[string]any{"input": text}
		featKey := func() string {
			var fs []string
			for f := range feats {
				if f != "word" && f != "op" && f != "number" && f != "string" {
					fs = append(fs, f)
				}
			}
			if len(fs) == 1 {
				return fs[0]
			}
			if len(fs) == 0 {
				return "plain"
			}
			return "mixed"
		}
		if err != nil {
			res.fail("reference-rejected:"+featKey(), "a sequence of reference lexemes is rejected by the tokenizer", wit, map[string]any{"error": strings.SplitN(err.Error(), "\n", 2)[0]})
			continue
		}
		if i < 3 {
			res.sample(map[string]any{"input": text, "tokens": len(toks)})
		}
		var got []expTok
		eofs := 0
		for _, t := range toks {
			if t.Token.Type == models.TokenTypeEOF {
				eofs++
				continue
			}
			got = append(got, expTok{tokKind(t.Token), t.Token.Value})
		}
		if eofs != 1 || toks[len(toks)-1].Token.Type != models.TokenTypeEOF {
			res.fail("eof-count", "the stream does not end with exactly one end-of-input marker", wit, map[string]any{"eofs": eofs})
		}
		ok := len(got) == len(exp)
		if ok {
			for k := range got {
				gk, ek := got[k].kind, exp[k].kind
				if gk != ek || got[k].value != exp[k].value {
					ok = false
				}
			}
		}
		if !ok {
			res.fail("tokens-differ:"+featKey(), "the token sequence is not the lexeme sequence (kind, decoded value)", wit, map[string]any{"got": fmt.Sprint(got), "want": fmt.Sprint(exp)})
		}
		var gotC []string
		for _, cm := range cms {
			gotC = append(gotC, cm.Text)
		}
		if strings.Join(gotC, "\x00") != strings.Join(comments, "\x00") {
			res.fail("comments-differ", "comments are not captured once each with their exact text", wit, map[string]any{"got": gotC, "want": comments})
		}
	}
	// quoted names whose content starts or ends with their own quote character (a doubled quote is one quote), in both
	// quoting styles: one identifier token with that content, never a string and never rejected
	for _, q := range []string{"\"", "`"} {
		for _, e := range []struct{ text, val string }{{"QQQQ", "Q"}, {"QaQQQ", "aQ"}, {"QQQaQ", "Qa"}, {"QQQaQQQ", "QaQ"}, {"QaQQbQ", "aQb"}, {"QQQQQQ", "QQ"}, {"QQQa bQQQ", "Qa bQ"}, {"QQQQQaQ", "QQa"}} {
			lit, val := strings.ReplaceAll(e.text, "Q", q), strings.ReplaceAll(e.val, "Q", q)
			text := "x = " + lit + " y"
			_, toks, _, err := corr([]byte(text))
			wit := map[string]any{"input": text, "quote": q}
			style := map[string]string{"\"": "double-quoted", "`": "backtick"}[q]
			if err != nil {
				res.fail("reference-rejected:"+style+"-name-quote-at-edge", "a quoted name whose content begins or ends with a (doubled) quote is rejected", wit, map[string]any{"error": strings.SplitN(err.Error(), "\n", 2)[0]})
			} else if len(toks) != 5 || toks[2].Token.Value != val || strings.Contains(strings.ToUpper(toks[2].Token.Type.String()), "TRIPLE") {
				res.fail("tokens-differ:"+style+"-name-quote-at-edge", "a quoted name whose content begins or ends with a (doubled) quote is not read as one name with that content", wit, map[string]any{"got": kindsValues(toks), "want": val})
			}
		}
	}
	// strings whose content starts or ends with a quote (standard SQL: a doubled quote is one quote)
	for _, e := range []struct{ text, val string }{{"''''", "'"}, {"'a'''", "a'"}, {"'''a'", "'a"}, {"'''a'''", "'a'"}, {"''", ""}, {"''''''", "''"}, {"'a''b'", "a'b"}} {
		text := "x = " + e.text + " y"
		_, toks, _, err := corr([]byte(text))
		wit := map[string]any{"input": text}
		if err != nil {
			res.fail("reference-rejected:string-quote-at-edge", "a string literal whose content begins or ends with a (doubled) quote is rejected", wit, map[string]any{"error": strings.SplitN(err.Error(), "\n", 2)[0]})
		} else if len(toks) != 5 || toks[2].Token.Value != e.val {
			res.fail("tokens-differ:string-quote-at-edge", "a string literal whose content begins or ends with a (doubled) quote is not decoded to that content", wit, map[string]any{"got": kindsValues(toks), "want": e.val})
		}
	}
	// a lone `$` before a word keeps the word
	for _, text := range []string{"a $abc def", "$abc", "$x y", "a $é-1"} {
		_, toks, _, err := corr([]byte(text))
		if err == nil {
			joined := ""
			for _, t := range toks {
				joined += t.Token.Value
			}
			if joined != strings.ReplaceAll(text, " ", "") {
				res.fail("characters-lost", "characters of the input belong to no token", map[string]any{"input": text}, map[string]any{"got": kindsValues(toks)})
			}
		}
	}
	// (2) layout independence on lexeme lists re-spelt
	for i := 0; i < c.n(1500, 60000); i++ {
		n := 1 + g.r.Intn(8)
		var ls []lexeme
		for k := 0; k < n; k++ {
			ls = append(ls, g.lexeme())
		}
		spell := func(seps func() string, recase bool) string {
			var sb strings.Builder
			for k, l := range ls {
				if k > 0 {
					s := seps()
					if s == "" && needsSep(ls[k-1], l) {
						s = " "
					}
					sb.WriteString(s)
				}
				t := l.text
				if recase && l.kind == "word" {
					if g.r.Bool() {
						t = strings.ToLower(t)
					} else {
						t = strings.ToUpper(t)
					}
				}
				sb.WriteString(t)
			}
			return sb.String()
		}
		a := spell(func() string { return " " }, false)
		b := spell(func() string { return g.r.Pick([]string{"", " ", "\n", "\t \n", "  "}) }, true)
		_, ta, _, ea := corr([]byte(a))
		_, tb, _, eb := corr([]byte(b))
		if (ea == nil) != (eb == nil) {
			res.fail("layout-verdict", "two spellings that differ only in blanks and keyword case: one is rejected", map[string]any{"a": a, "b": b}, nil)
			continue
		}
		if ea != nil {
			continue
		}
		ka, kb := kindsValues(ta), kindsValues(tb)
		if ka != kb {
			res.fail("layout-dependent", "two spellings that differ only in blanks and keyword case give different kinds/values", map[string]any{"a": a, "b": b}, map[string]any{"a": ka, "b": kb})
		}
		_, pa := gosqlx.Parse(a)
		_, pb := gosqlx.Parse(b)
		if (pa == nil) != (pb == nil) {
			res.fail("layout-parse-verdict", "two spellings that differ only in blanks and keyword case: one parses, the other does not", map[string]any{"a": a, "b": b}, map[string]any{"a": fmt.Sprint(pa), "b": fmt.Sprint(pb)})
		}
	}
	// (3) exhaustive operator adjacency
	for _, o1 := range refOperators {
		for _, o2 := range refOperators {
			for _, sep := range []string{" ", "/**/", "\n"} {
				text := "a " + o1 + sep + o2 + " b"
				_, toks, _, err := corr([]byte(text))
				if err != nil {
					res.fail("operator-pair-rejected", "two operators separated by a blank or comment are rejected", map[string]any{"input": text}, nil)
					continue
				}
				if len(toks) != 5 || toks[1].Token.Value != o1 || toks[2].Token.Value != o2 {
					res.fail("operator-pair", "two operators separated by a blank or comment are not read as themselves", map[string]any{"input": text}, map[string]any{"got": kindsValues(toks)})
				}
			}
			corr([]byte("a " + o1 + o2 + " b"))
		}
		for b := 0; b < 128; b++ {
			corr([]byte("x" + o1 + string(rune(b)) + "y"))
		}
	}
	// every keyword of the tokenizer's table in lower, upper and mixed case: same type, value as written
	var lt struct {
		Keywords []struct {
			K string `json:"k"`
			V int    `json:"v"`
		} `json:"keywords"`
		CompoundTypes []struct {
			K string `json:"k"`
			V int    `json:"v"`
		} `json:"compound_types"`
	}
	if raw, err := os.ReadFile(verifDir + "/gen/lex_tables.json"); err == nil {
		_ = json.Unmarshal(raw, &lt)
	}
	res.stat(fmt.Sprintf("keywords-from-table:%d", len(lt.Keywords)))
	mixed := func(k string) string {
		b := []byte(strings.ToLower(k))
		for i := 0; i < len(b); i += 2 {
			if b[i] >= 'a' && b[i] <= 'z' {
				b[i] -= 32
			}
		}
		return string(b)
	}
	for _, kw := range append(lt.Keywords, lt.CompoundTypes...) {
		if len(strings.Fields(kw.K)) > 2 {
			continue // three-word entries of the compound table are dead: the look-ahead reads one following word
		}
		var types []int
		for _, sp := range []string{kw.K, strings.ToLower(kw.K), mixed(kw.K)} {
			_, toks, _, err := corr([]byte(sp))
			if err != nil || len(toks) != 2 {
				res.fail("keyword-case", "a keyword spelt in another letter case is not read as one keyword token", map[string]any{"input": sp}, map[string]any{"got": kindsValues(toks)})
				continue
			}
			types = append(types, int(toks[0].Token.Type))
			if toks[0].Token.Value != sp {
				res.fail("keyword-value", "a keyword token does not carry the text as written", map[string]any{"input": sp}, map[string]any{"got": toks[0].Token.Value})
			}
		}
		for _, ty := range types {
			if ty != kw.V {
				res.fail("keyword-case", "the token type of a keyword depends on its letter case", map[string]any{"keyword": kw.K}, map[string]any{"types": types, "table": kw.V})
				break
			}
		}
	}
	// a quoted form whose whole content spells a compound keyword stays one element and never changes the parse: every
	// entry of the regenerated compound table x three letter cases x every quoting style
	for _, kw := range lt.CompoundTypes {
		for _, sp := range []string{kw.K, strings.ToLower(kw.K), mixed(kw.K)} {
			for _, q := range []struct{ name, open, close, frame string }{
				{"single-quoted", "'", "'", "SELECT a FROM t WHERE k = %s ORDER BY a"},
				{"dollar-quoted", "$$", "$$", "SELECT a FROM t WHERE k = %s ORDER BY a"},
				{"dollar-tagged", "$q$", "$q$", "SELECT a FROM t WHERE k = %s ORDER BY a"},
				{"double-quoted", "\"", "\"", "SELECT %s FROM t ORDER BY a"},
				{"backtick", "`", "`", "SELECT %s FROM t ORDER BY a"},
				{"single-quoted-in-list", "'", "'", "SELECT a FROM t WHERE k IN ('x', %s) GROUP BY a"},
				{"dollar-quoted-join", "$$", "$$", "SELECT a FROM t LEFT JOIN u ON u.k = %s"},
			} {
				sql := fmt.Sprintf(q.frame, q.open+sp+q.close)
				res.count("quoted-compound|"+sql, true)
				tree, err := gosqlx.Parse(sql)
				wit := map[string]any{"sql": sql, "quoting": q.name, "content": sp}
				if err != nil {
					res.fail("quoted-compound-rejected:"+q.name, "a statement with a quoted form whose content spells a compound keyword is rejected: the content was read as keywords", wit, strings.SplitN(err.Error(), "\n", 2)[0])
					continue
				}
				if d := dumpNode(tree); !strings.Contains(d, fmt.Sprintf("%q", sp)) {
					res.fail("quoted-compound-value:"+q.name, "the tree does not carry the quoted content as written", wit, clip(d, 300))
				}
				ast.ReleaseAST(tree)
			}
		}
	}
	// exhaustive short strings over the characters the readers branch on
	small := []byte("/*-\n'\"$a1.e `@\\<>=")
	var enum func(prefix []byte, depth int)
	enum = func(prefix []byte, depth int) {
		corr(prefix)
		if depth == 0 {
			return
		}
		for _, ch := range small {
			enum(append(append([]byte{}, prefix...), ch), depth-1)
		}
	}
	enum(nil, c.n(3, 4))
	for _, s := range []string{"/*/", "/*/*/", "a/*/b*/c", "/**/", "/***/", "/* * /", "--", "--\n", "-- x\r\n", "/*", "/* x", "a--b\nc", "a/*b\nc*/d", "--/*\n*/", "/*--*/x", "a -- /* \n b */"} {
		corr([]byte(s))
	}
	// comment boundaries: the opener's own characters never take part in the terminator
	for _, e := range []struct {
		text     string
		comments []string
		toks     string
	}{
		{"/*/ x */ y", []string{"/*/ x */"}, "word:Y eof:"},
		{"a /**/ b", []string{"/**/"}, "word:A word:B eof:"},
		{"a /***/ b", []string{"/***/"}, "word:A word:B eof:"},
		{"a /* * / */ b", []string{"/* * / */"}, "word:A word:B eof:"},
		{"a --/*\nb */ c", []string{"--/*"}, "word:A word:B op:* op:/ word:C eof:"},
		{"a /*--*/ b", []string{"/*--*/"}, "word:A word:B eof:"},
		{"a -- x\r\nb", []string{"-- x\r"}, "word:A word:B eof:"},
		{"a - - b", nil, "word:A op:- op:- word:B eof:"},
		{"a / * b", nil, "word:A op:/ op:* word:B eof:"},
	} {
		_, toks, cms, err := corr([]byte(e.text))
		if err != nil {
			res.fail("comment-boundary", "a statement with comments is rejected", map[string]any{"input": e.text}, nil)
			continue
		}
		var gotC []string
		for _, cm := range cms {
			gotC = append(gotC, cm.Text)
		}
		if strings.Join(gotC, "\x00") != strings.Join(e.comments, "\x00") || kindsValues(toks) != e.toks {
			res.fail("comment-boundary", "comment boundaries are not the ones written", map[string]any{"input": e.text}, map[string]any{"comments": gotC, "tokens": kindsValues(toks), "want_comments": e.comments, "want_tokens": e.toks})
		}
	}
	// (4) correspondence on bytes and corrupted statements
	rb := c.rng.Fork()
	alphabet := []byte("ab_ 9.'\"`$@:-/*\n\\e+E<>=!#?|&~;,()[]\t\r%xyzGROUPBYgroupby01\x00\x7f\xc3\xa9\xe2\x80\x98\xe2\x80\x9c\xc2\xab\xf0\x9f\x98\x80\xff\xc0\xed\xa0\x80")
	for i := 0; i < c.n(6000, 400000); i++ {
		n := rb.Intn(24)
		buf := make([]byte, n)
		for k := range buf {
			if rb.Intn(8) == 0 {
				buf[k] = byte(rb.Intn(256))
			} else {
				buf[k] = alphabet[rb.Intn(len(alphabet))]
			}
		}
		corr(buf)
	}
	for _, s := range lexicalGarbage {
		corr([]byte(s))
	}
	sg := newSQLGen(c.rng.Fork())
	for i := 0; i < c.n(300, 5000); i++ {
		sql := sg.Statement()
		corr([]byte(sql))
		for _, m := range corruptions(rb, sql, 2) {
			corr([]byte(m))
		}
	}
	for _, f := range repoCorpus() {
		corr([]byte(f))
	}
}

func kindsValues(ts []models.TokenWithSpan) string {
	var xs []string
	for _, t := range ts {
		v := t.Token.Value
		if t.Token.Word != nil {
			v = strings.ToUpper(v)
		}
		xs = append(xs, tokKind(t.Token)+":"+v)
	}
	return strings.Join(xs, " ")
}
