package main

import (
	"fmt"
	"strings"

	"github.com/ajitpratap0/GoSQLX/pkg/models"
)

// canonical, pointer-free renderings of tokenizer output

func fmtTok(t models.TokenWithSpan) string {
	w := ""
	if t.Token.Word != nil {
		kw := ""
		if t.Token.Word.Keyword != nil {
			kw = fmt.Sprintf("kw(%s,%v)", t.Token.Word.Keyword.Word, t.Token.Word.Keyword.Reserved)
		}
		w = fmt.Sprintf(" word(%q,%d,%s)", t.Token.Word.Value, t.Token.Word.QuoteStyle, kw)
	}
	return fmt.Sprintf("%d:%q%s q=%d long=%v @%d:%d-%d:%d", int(t.Token.Type), t.Token.Value, w, t.Token.Quote, t.Token.Long,
		t.Start.Line, t.Start.Column, t.End.Line, t.End.Column)
}

func fmtToks(ts []models.TokenWithSpan) string {
	xs := make([]string, len(ts))
	for i, t := range ts {
		xs[i] = fmtTok(t)
	}
	return "[" + strings.Join(xs, " | ") + "]"
}

func fmtComments(cs []models.Comment) string {
	xs := make([]string, len(cs))
	for i, c := range cs {
		xs[i] = fmt.Sprintf("%q style=%d @%d:%d-%d:%d inline=%v", c.Text, int(c.Style), c.Start.Line, c.Start.Column, c.End.Line, c.End.Column, c.Inline)
	}
	return "[" + strings.Join(xs, " | ") + "]"
}
