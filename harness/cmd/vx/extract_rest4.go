package main

func extractRest4(l *loaded, genDir, jsonDir string) error { return nil }
