package main

func extractRest4(l *loaded, genDir, jsonDir string) error {
	sites, ctx, err := extractErrorSites(l)
	if err != nil {
		return err
	}
	if err := writeJSON(jsonDir+"/error_sites.json", map[string]any{"sites": sites, "ctx_sites": ctx}); err != nil {
		return err
	}
	if err := emitErrorsLean(sites, ctx, genDir); err != nil {
		return err
	}
	return extractRest5(l, genDir, jsonDir)
}
