package main

// childExtra: additional child-side operations (registered by property files)
var childExtras = map[string]func(data []byte) string{}

func childExtra(op string, data []byte) string {
	if f := childExtras[op]; f != nil {
		return f(data)
	}
	return "bad-op"
}

func extractRest2(l *loaded, genDir, jsonDir string) error { return extractRest3(l, genDir, jsonDir) }
