package main

import (
	"context"
	"encoding/json"
	"fmt"
	"github.com/ajitpratap0/GoSQLX/pkg/models"
	"github.com/ajitpratap0/GoSQLX/pkg/sql/parser"
	"os"
	"reflect"
	"runtime"
	"runtime/debug"
	"strings"

	"github.com/ajitpratap0/GoSQLX/pkg/gosqlx"
	"github.com/ajitpratap0/GoSQLX/pkg/sql/ast"
	"github.com/ajitpratap0/GoSQLX/pkg/sql/security"
	"github.com/ajitpratap0/GoSQLX/pkg/sql/tokenizer"
	"github.com/ajitpratap0/GoSQLX/pkg/transform"
)

func init() { props["C09"] = runC09 }

type poolEntry struct {
	site string
	typ  reflect.Type
	put  func(any)
	get  func() any
}

func poolRegistry() []poolEntry {
	e := func(site string, sample any, put func(any), get func() any) poolEntry {
		return poolEntry{site, reflect.TypeOf(sample).Elem(), put, get}
	}
	pe := func(sample ast.Expression, get func() any) poolEntry {
		t := reflect.TypeOf(sample).Elem()
		return poolEntry{"PutExpression/" + t.Name(), t, func(x any) { ast.PutExpression(x.(ast.Expression)) }, get}
	}
	return []poolEntry{
		e("PutInsertStatement", (*ast.InsertStatement)(nil), func(x any) { ast.PutInsertStatement(x.(*ast.InsertStatement)) }, func() any { return ast.GetInsertStatement() }),
		e("PutUpdateStatement", (*ast.UpdateStatement)(nil), func(x any) { ast.PutUpdateStatement(x.(*ast.UpdateStatement)) }, func() any { return ast.GetUpdateStatement() }),
		e("PutDeleteStatement", (*ast.DeleteStatement)(nil), func(x any) { ast.PutDeleteStatement(x.(*ast.DeleteStatement)) }, func() any { return ast.GetDeleteStatement() }),
		e("PutSelectStatement", (*ast.SelectStatement)(nil), func(x any) { ast.PutSelectStatement(x.(*ast.SelectStatement)) }, func() any { return ast.GetSelectStatement() }),
		e("PutUpdateExpression", (*ast.UpdateExpression)(nil), func(x any) { ast.PutUpdateExpression(x.(*ast.UpdateExpression)) }, func() any { return ast.GetUpdateExpression() }),
		e("PutIdentifier", (*ast.Identifier)(nil), func(x any) { ast.PutIdentifier(x.(*ast.Identifier)) }, func() any { return ast.GetIdentifier() }),
		e("PutBinaryExpression", (*ast.BinaryExpression)(nil), func(x any) { ast.PutBinaryExpression(x.(*ast.BinaryExpression)) }, func() any { return ast.GetBinaryExpression() }),
		e("PutLiteralValue", (*ast.LiteralValue)(nil), func(x any) { ast.PutLiteralValue(x.(*ast.LiteralValue)) }, func() any { return ast.GetLiteralValue() }),
		e("PutFunctionCall", (*ast.FunctionCall)(nil), func(x any) { ast.PutFunctionCall(x.(*ast.FunctionCall)) }, func() any { return ast.GetFunctionCall() }),
		e("PutCaseExpression", (*ast.CaseExpression)(nil), func(x any) { ast.PutCaseExpression(x.(*ast.CaseExpression)) }, func() any { return ast.GetCaseExpression() }),
		e("PutBetweenExpression", (*ast.BetweenExpression)(nil), func(x any) { ast.PutBetweenExpression(x.(*ast.BetweenExpression)) }, func() any { return ast.GetBetweenExpression() }),
		e("PutInExpression", (*ast.InExpression)(nil), func(x any) { ast.PutInExpression(x.(*ast.InExpression)) }, func() any { return ast.GetInExpression() }),
		e("PutTupleExpression", (*ast.TupleExpression)(nil), func(x any) { ast.PutTupleExpression(x.(*ast.TupleExpression)) }, func() any { return ast.GetTupleExpression() }),
		e("PutArrayConstructor", (*ast.ArrayConstructorExpression)(nil), func(x any) { ast.PutArrayConstructor(x.(*ast.ArrayConstructorExpression)) }, func() any { return ast.GetArrayConstructor() }),
		e("PutSubqueryExpression", (*ast.SubqueryExpression)(nil), func(x any) { ast.PutSubqueryExpression(x.(*ast.SubqueryExpression)) }, func() any { return ast.GetSubqueryExpression() }),
		e("PutCastExpression", (*ast.CastExpression)(nil), func(x any) { ast.PutCastExpression(x.(*ast.CastExpression)) }, func() any { return ast.GetCastExpression() }),
		e("PutIntervalExpression", (*ast.IntervalExpression)(nil), func(x any) { ast.PutIntervalExpression(x.(*ast.IntervalExpression)) }, func() any { return ast.GetIntervalExpression() }),
		e("PutAliasedExpression", (*ast.AliasedExpression)(nil), func(x any) { ast.PutAliasedExpression(x.(*ast.AliasedExpression)) }, func() any { return ast.GetAliasedExpression() }),
		e("PutArraySubscriptExpression", (*ast.ArraySubscriptExpression)(nil), func(x any) { ast.PutArraySubscriptExpression(x.(*ast.ArraySubscriptExpression)) }, func() any { return ast.GetArraySubscriptExpression() }),
		e("PutArraySliceExpression", (*ast.ArraySliceExpression)(nil), func(x any) { ast.PutArraySliceExpression(x.(*ast.ArraySliceExpression)) }, func() any { return ast.GetArraySliceExpression() }),
		pe((*ast.Identifier)(nil), func() any { return ast.GetIdentifier() }),
		pe((*ast.BinaryExpression)(nil), func() any { return ast.GetBinaryExpression() }),
		pe((*ast.LiteralValue)(nil), func() any { return ast.GetLiteralValue() }),
		pe((*ast.FunctionCall)(nil), func() any { return ast.GetFunctionCall() }),
		pe((*ast.CaseExpression)(nil), func() any { return ast.GetCaseExpression() }),
		pe((*ast.BetweenExpression)(nil), func() any { return ast.GetBetweenExpression() }),
		pe((*ast.InExpression)(nil), func() any { return ast.GetInExpression() }),
		pe((*ast.SubqueryExpression)(nil), func() any { return ast.GetSubqueryExpression() }),
		pe((*ast.CastExpression)(nil), func() any { return ast.GetCastExpression() }),
		pe((*ast.IntervalExpression)(nil), func() any { return ast.GetIntervalExpression() }),
		pe((*ast.ArraySubscriptExpression)(nil), func() any { return ast.GetArraySubscriptExpression() }),
		pe((*ast.ArraySliceExpression)(nil), func() any { return ast.GetArraySliceExpression() }),
		pe((*ast.TupleExpression)(nil), func() any { return ast.GetTupleExpression() }),
		pe((*ast.ArrayConstructorExpression)(nil), func() any { return ast.GetArrayConstructor() }),
		pe((*ast.AliasedExpression)(nil), func() any { return ast.GetAliasedExpression() }),
		// pooled by PutExpression but without an exported Get: probed through the parser-independent path below
		pe((*ast.ExistsExpression)(nil), nil),
		pe((*ast.AnyExpression)(nil), nil),
		pe((*ast.AllExpression)(nil), nil),
		pe((*ast.ListExpression)(nil), nil),
		pe((*ast.UnaryExpression)(nil), nil),
		pe((*ast.ExtractExpression)(nil), nil),
		pe((*ast.PositionExpression)(nil), nil),
		pe((*ast.SubstringExpression)(nil), nil),
	}
}

var (
	exprIface = reflect.TypeOf((*ast.Expression)(nil)).Elem()
	stmtIface = reflect.TypeOf((*ast.Statement)(nil)).Elem()
)

// fillDirty sets every settable field of the struct pointed to by p to non-zero content.
func fillDirty(v reflect.Value, depth int) {
	switch v.Kind() {
	case reflect.String:
		v.SetString("dirty")
	case reflect.Bool:
		v.SetBool(true)
	case reflect.Int, reflect.Int8, reflect.Int16, reflect.Int32, reflect.Int64:
		v.SetInt(7)
	case reflect.Uint, reflect.Uint8, reflect.Uint16, reflect.Uint32, reflect.Uint64:
		v.SetUint(7)
	case reflect.Float32, reflect.Float64:
		v.SetFloat(1.5)
	case reflect.Pointer:
		n := reflect.New(v.Type().Elem())
		if depth > 0 {
			fillDirty(n.Elem(), depth-1)
		}
		v.Set(n)
	case reflect.Interface:
		t := v.Type()
		var x any
		switch {
		case reflect.TypeOf(&ast.Identifier{}).Implements(t):
			x = &ast.Identifier{Name: "dirty"}
		case reflect.TypeOf(&ast.SelectStatement{}).Implements(t):
			x = &ast.SelectStatement{TableName: "dirty"}
		case t.NumMethod() == 0:
			x = "dirty"
		default:
			return
		}
		v.Set(reflect.ValueOf(x))
	case reflect.Slice:
		s := reflect.MakeSlice(v.Type(), 1, 1)
		if depth > 0 {
			fillDirty(s.Index(0), depth-1)
		}
		v.Set(s)
	case reflect.Map:
		// leave maps alone (no pooled type has one)
	case reflect.Struct:
		for i := 0; i < v.NumField(); i++ {
			if v.Field(i).CanSet() {
				fillDirty(v.Field(i), depth)
			}
		}
	}
}

func isCleanField(v reflect.Value) bool {
	switch v.Kind() {
	case reflect.Slice:
		return v.Len() == 0
	case reflect.Map:
		return v.Len() == 0
	default:
		return v.IsZero()
	}
}

func runC09(c *runCtx) {
	res := c.res
	res.Rule = "cleanliness: every (pool-return site, field) of the registry is populated by reflection, released and taken again (distinct = distinct site.field pairs probed, exhaustive over the registry); ownership: a held tree/token list is deep-snapshotted, other statements are parsed/released, and the snapshot is compared (distinct = distinct (held, activity) pairs)"
	debug.SetGCPercent(-1)
	defer debug.SetGCPercent(100)
	runtime.LockOSThread()
	defer runtime.UnlockOSThread()

	// static table (extractor) for cross-validation
	var at AstTables
	if raw, err := os.ReadFile(verifDir + "/gen/ast_tables.json"); err == nil {
		_ = json.Unmarshal(raw, &at)
	}
	staticCleared := map[string]map[string]bool{}
	for _, s := range at.Pools {
		m := map[string]bool{}
		for _, f := range s.Cleared {
			m[f] = true
		}
		staticCleared[s.Site] = m
	}
	probed := map[string]bool{}
	for _, pe := range poolRegistry() {
		probed[pe.site] = true
		for rep := 0; rep < 3; rep++ {
			obj := reflect.New(pe.typ)
			fillDirty(obj.Elem(), 2)
			ptr := obj.Interface()
			pe.put(ptr)
			var got any
			if pe.get != nil {
				for i := 0; i < 8; i++ {
					g := pe.get()
					if reflect.ValueOf(g).Pointer() == obj.Pointer() {
						got = g
						break
					}
				}
			} else {
				got = ptr // no exported Get: inspect the released object itself
			}
			if got == nil {
				res.stat("pool-miss")
				continue
			}
			gv := reflect.ValueOf(got).Elem()
			for i := 0; i < gv.NumField(); i++ {
				fname := pe.typ.Field(i).Name
				res.count(pe.site+"."+fname, true)
				dirty := !isCleanField(gv.Field(i))
				if dirty {
					res.fail("dirty-after-put:"+pe.typ.Name()+"."+fname,
						fmt.Sprintf("%s leaves %s.%s populated; the next Get returns it", pe.site, pe.typ.Name(), fname),
						map[string]any{"site": pe.site, "type": pe.typ.Name(), "field": fname, "history": []string{"fill every field", pe.site, "Get until the same pointer returns"}}, nil)
				}
				if sc, ok := staticCleared[pe.site]; ok && rep == 0 {
					res.CorrCases++
					if sc[fname] && dirty {
						res.corrFail("pool-table:"+pe.site+"."+fname, "extractor says cleared, reflection probe finds it dirty", nil, nil)
					}
					if !sc[fname] && !dirty {
						res.corrFail("pool-table:"+pe.site+"."+fname, "extractor says not cleared, reflection probe finds it clean (static-only offender)", nil, nil)
					}
				}
			}
			break
		}
	}
	for _, s := range at.Pools {
		if !probed[s.Site] && s.Site != "ReleaseAST" {
			res.corrFail("pool-site-unprobed:"+s.Site, "pool-return site extracted from pool.go has no reflection probe in the harness registry", nil, nil)
		}
	}
	res.sample(map[string]any{"probe": "fill/put/get", "sites": len(probed)})

	// ownership: held results are not modified by later library activity / by releasing other trees
	corpus := append([]string{}, builtinCorpus...)
	{
		cg := newSQLGen(c.rng.Fork())
		for i := 0; i < c.n(150, 2000); i++ {
			corpus = append(corpus, cg.Statement())
		}
		corpus = append(corpus, "SELECT a FROM t WHERE b IS NULL AND c IS NOT NULL", "SELECT a[1], b[2:3], ARRAY[1, 2], (x, y), CAST(z AS INT), EXTRACT(YEAR FROM d) FROM t WHERE e IS NULL",
			"SELECT CASE WHEN a IS NULL THEN 1 END FROM t WHERE b BETWEEN 1 AND 2 OR c IN (1, 2) OR d LIKE 'x' OR EXISTS (SELECT 1)")
	}
	// no released tree puts one object into a pool twice: after parse + release, the objects drawn from each pool while
	// all of them are held are pairwise distinct (the parser builds trees in which one node can be reachable through two
	// fields, e.g. the first FROM item and the left operand of the first JOIN)
	shared := []string{
		"SELECT d.a FROM (SELECT a FROM t WHERE a > 0) d JOIN u ON d.a = u.a",
		"SELECT d.a FROM (SELECT a FROM t) d LEFT JOIN u ON d.a = u.a JOIN v ON v.a = u.a",
		"SELECT t.a FROM t JOIN (SELECT a FROM u) d ON t.a = d.a JOIN (SELECT b FROM w) e ON e.b = d.a",
		"SELECT * FROM (SELECT a FROM t) d, (SELECT b FROM u) e WHERE d.a = e.b",
		"SELECT * FROM t, LATERAL (SELECT a FROM u WHERE u.i = t.i) l JOIN v ON v.i = l.a",
		"WITH c AS (SELECT a FROM t) SELECT c.a FROM c JOIN (SELECT a FROM c) d ON c.a = d.a",
		"SELECT a FROM t WHERE a IN (SELECT b FROM u) AND EXISTS (SELECT 1 FROM v) UNION SELECT b FROM (SELECT b FROM w) x JOIN y ON x.b = y.b",
		"INSERT INTO t (a) SELECT d.a FROM (SELECT a FROM u) d JOIN v ON d.a = v.a",
		"UPDATE t SET a = (SELECT max(b) FROM (SELECT b FROM u) d JOIN v ON d.b = v.b) WHERE c IN (SELECT c FROM w)",
		"DELETE FROM t WHERE a IN (SELECT d.a FROM (SELECT a FROM u) d JOIN v ON d.a = v.a)",
		"SELECT CASE WHEN a = 1 THEN b ELSE c END, CAST(d AS INT), e BETWEEN 1 AND 2, f IN (1, 2), g[1], (h, i) FROM t GROUP BY a HAVING count(*) > 1",
		// trees far larger than any internal work budget of the release code
		"SELECT a FROM t WHERE x IN (" + strings.Repeat("7, ", 3000) + "7)",
		"SELECT a FROM t WHERE x IN (" + strings.Repeat("b[100000], ", 2500) + "b[1])",
		"SELECT " + strings.Repeat("f(a, 'x', 1) + ", 1500) + "1 FROM t",
		"SELECT a FROM t WHERE " + strings.Repeat("a BETWEEN 1 AND 2 AND c LIKE 'z' AND ", 700) + "d IS NULL",
		"SELECT " + strings.Repeat("CASE WHEN a THEN CAST(b AS INT) ELSE (c, d) END, ", 600) + "1 FROM t",
	}
	drawn := 0
	for si, sqlText := range append(shared, corpus...) {
		if si >= len(shared)+c.n(400, 4000) {
			break
		}
		tree, err := gosqlx.Parse(sqlText)
		if err != nil {
			continue
		}
		ast.ReleaseAST(tree)
		for _, pe := range poolRegistry() {
			if pe.get == nil || strings.HasPrefix(pe.site, "PutExpression/") {
				continue
			}
			seen := map[uintptr]int{}
			storage := map[string]map[uintptr]int{} // list field -> address of its backing array -> draw
			for k := 0; k < 6; k++ {
				o := pe.get()
				addr := reflect.ValueOf(o).Pointer()
				// lists that come with room to grow: each drawn object has storage of its own (appending to one must not
				// write into another that is still held)
				if ov := reflect.ValueOf(o).Elem(); ov.Kind() == reflect.Struct {
					for fi := 0; fi < ov.NumField(); fi++ {
						f := ov.Field(fi)
						if f.Kind() != reflect.Slice || f.Cap() == 0 {
							continue
						}
						name := pe.typ.Field(fi).Name
						if storage[name] == nil {
							storage[name] = map[uintptr]int{}
						}
						if j, dup := storage[name][f.Pointer()]; dup {
							res.fail("pool-objects-share-storage:"+pe.typ.Name()+"."+name, fmt.Sprintf("draws %d and %d from the %s pool, both held, have the same backing array for %s: filling one overwrites the other", j, k, pe.typ.Name(), name),
								map[string]any{"history": []string{"gosqlx.Parse", "ast.ReleaseAST", "6 x Get" + strings.TrimPrefix(pe.site, "Put")}, "sql": truncate(sqlText, 300)}, map[string]any{"capacity": f.Cap()})
						}
						storage[name][f.Pointer()] = k
					}
				}
				if j, dup := seen[addr]; dup {
					res.fail("pool-holds-object-twice:"+pe.typ.Name(), fmt.Sprintf("after a tree was released, draws %d and %d from the %s pool return the same object while both are held", j, k, pe.typ.Name()),
						map[string]any{"history": []string{"gosqlx.Parse", "ast.ReleaseAST", "6 x Get" + strings.TrimPrefix(pe.site, "Put")}, "sql": sqlText}, nil)
					break
				}
				seen[addr] = k
				drawn++
				// … and indistinguishable from a freshly constructed one
				gv := reflect.ValueOf(o).Elem()
				for fi := 0; fi < gv.NumField(); fi++ {
					if !isCleanField(gv.Field(fi)) {
						res.fail("dirty-after-release:"+pe.typ.Name()+"."+pe.typ.Field(fi).Name,
							fmt.Sprintf("after a tree was released, an object drawn from the %s pool still carries %s", pe.typ.Name(), pe.typ.Field(fi).Name),
							map[string]any{"history": []string{"gosqlx.Parse", "ast.ReleaseAST", "Get" + strings.TrimPrefix(pe.site, "Put")}, "sql": truncate(sqlText, 300)},
							map[string]any{"value": truncate(fmt.Sprintf("%+v", gv.Field(fi).Interface()), 200)})
						break
					}
				}
			}
			// the drawn objects are not handed back: later statements start from what their own release pooled
		}
		res.count("draw-distinct|"+sqlText, true)
	}
	res.Stats["pool_objects_drawn"] = drawn
	rounds := c.n(300, 5000)
	for i := 0; i < rounds; i++ {
		a := corpus[c.rng.Intn(len(corpus))]
		held, err := gosqlx.Parse(a)
		if err != nil {
			continue
		}
		snap := dumpNode(held)
		acts := []string{}
		for k := 0; k < 1+c.rng.Intn(4); k++ {
			b := corpus[c.rng.Intn(len(corpus))]
			other, err := gosqlx.Parse(b)
			acts = append(acts, b)
			if err == nil && c.rng.Bool() {
				ast.ReleaseAST(other)
				acts = append(acts, "<release>")
			}
		}
		res.count(a+"|"+strings.Join(acts, "|"), true)
		if dumpNode(held) != snap {
			res.fail("held-tree-modified", "a tree held by the caller changed after parsing/releasing other statements",
				map[string]any{"held": a, "activity": acts}, nil)
		}
		if i == 0 {
			res.sample(map[string]any{"held": a, "activity": acts})
		}
		ast.ReleaseAST(held)
	}
	// trees rewritten by the library's own rewriting rules (pkg/transform): one rule value applied to several trees that the
	// caller keeps — what the rule adds to one tree is not shared with another, so releasing one leaves the others as they were
	{
		rules := []struct {
			name string
			mk   func() transform.Rule
		}{
			{"AddWhereFromSQL", func() transform.Rule { return transform.AddWhereFromSQL("tenant_id = 42 AND region IN ('eu', 'us')") }},
			{"AddJoinFromSQL", func() transform.Rule { return transform.AddJoinFromSQL("LEFT JOIN u ON u.i = t.i") }},
			{"AddOrderBy", func() transform.Rule { return transform.AddOrderBy("created_at", true) }},
			{"SetLimit", func() transform.Rule { return transform.SetLimit(5) }},
			{"SetOffset", func() transform.Rule { return transform.SetOffset(2) }},
			{"ReplaceColumn", func() transform.Rule { return transform.ReplaceColumn("a", "renamed") }},
			{"AddTableAlias", func() transform.Rule { return transform.AddTableAlias("t", "tt") }},
			{"QualifyColumns", func() transform.Rule { return transform.QualifyColumns("t") }},
			{"ReplaceTable", func() transform.Rule { return transform.ReplaceTable("t", "t_new") }},
			{"AddSelectStar", func() transform.Rule { return transform.AddSelectStar() }},
		}
		stmts := []string{"SELECT a, b FROM t WHERE a > 1", "SELECT a FROM t", "SELECT total FROM t ORDER BY a", "SELECT a, COUNT(*) FROM t GROUP BY a", "SELECT b FROM t WHERE b IS NOT NULL LIMIT 3"}
		for _, rl := range rules {
			rule := rl.mk()
			var trees []*ast.AST
			var snaps []string
			for _, sql := range stmts {
				t, err := gosqlx.Parse(sql)
				if err != nil || len(t.Statements) != 1 {
					continue
				}
				if err := transform.Apply(t.Statements[0], rule); err != nil {
					res.stat("transform-rule-not-applicable:" + rl.name)
					ast.ReleaseAST(t)
					continue
				}
				trees = append(trees, t)
			}
			for _, t := range trees {
				snaps = append(snaps, dumpNode(t))
			}
			res.count("transform|"+rl.name, true)
			for i := range trees {
				ast.ReleaseAST(trees[i])
				for k := 0; k < 3; k++ {
					if o, err := gosqlx.Parse(stmts[(i+k)%len(stmts)]); err == nil {
						ast.ReleaseAST(o)
					}
				}
				for j := i + 1; j < len(trees); j++ {
					if dumpNode(trees[j]) != snaps[j] {
						res.fail("held-tree-modified:transform:"+rl.name, "several trees were rewritten with one rule value; releasing one of them changed another that is still held",
							map[string]any{"rule": rl.name, "released": stmts[i], "held": stmts[j]}, map[string]any{"held_before": truncate(snaps[j], 300), "held_now": truncate(dumpNode(trees[j]), 300)})
						break
					}
				}
			}
		}
	}
	// two trees held at the same time are distinct objects, whatever happened before (including
	// cancelled context-aware parses at every poll index)
	for i := 0; i < c.n(300, 5000); i++ {
		var acts []string
		for k := 0; k < 1+c.rng.Intn(3); k++ {
			b := corpus[c.rng.Intn(len(corpus))]
			at := c.rng.Intn(8)
			t, _ := gosqlx.ParseWithContext(&pollCtx{Context: context.Background(), k: at, err: context.Canceled}, b)
			acts = append(acts, fmt.Sprintf("ParseWithContext(%q, cancel@%d)", truncate(b, 40), at))
			if t != nil && c.rng.Bool() {
				ast.ReleaseAST(t)
			}
		}
		a1 := corpus[c.rng.Intn(len(corpus))]
		a2 := corpus[c.rng.Intn(len(corpus))]
		t1, e1 := gosqlx.Parse(a1)
		if e1 != nil {
			continue
		}
		s1 := dumpNode(t1)
		t2, e2 := gosqlx.Parse(a2)
		res.count("two-live|"+strings.Join(acts, "|")+"|"+a1+"|"+a2, true)
		if e2 == nil && t1 == t2 {
			res.fail("two-live-trees-same-object", "two parse results held at the same time are the same *ast.AST",
				map[string]any{"history": acts, "first": a1, "second": a2}, nil)
		}
		if dumpNode(t1) != s1 {
			res.fail("held-tree-modified", "a tree held by the caller changed when another statement was parsed",
				map[string]any{"history": acts, "held": a1, "then": a2}, nil)
		}
		if e2 == nil && t2 != t1 {
			// no node of one tree is a node of the other
			addrs := map[uintptr]string{}
			for _, r := range reachableNodes(t1) {
				if r.addr != 0 {
					addrs[r.addr] = r.typ
				}
			}
			for _, r := range reachableNodes(t2) {
				if ty, ok := addrs[r.addr]; ok && r.addr != 0 && ty == r.typ {
					res.fail("two-live-trees-share-node:"+r.typ, "two trees held at the same time share a node object",
						map[string]any{"history": acts, "first": a1, "second": a2, "node": truncate(dumpShallow(r.val, 6), 200)}, nil)
					break
				}
			}
			// releasing one leaves the other as it was
			ast.ReleaseAST(t2)
			if dumpNode(t1) != s1 {
				res.fail("held-tree-modified-by-release", "a tree held by the caller changed when another tree was released",
					map[string]any{"history": acts, "held": a1, "released": a2}, nil)
			}
			// … and so does whatever is parsed next out of the pools the release filled
			if t3, e3 := gosqlx.Parse(corpus[c.rng.Intn(len(corpus))]); e3 == nil {
				if dumpNode(t1) != s1 {
					res.fail("held-tree-modified", "a tree held by the caller changed when another statement was parsed after a release",
						map[string]any{"history": acts, "held": a1, "released": a2}, nil)
				}
				ast.ReleaseAST(t3)
			}
		}
		ast.ReleaseAST(t1)
	}
	// lists returned by the extraction API stay the caller's: extracting from another tree afterwards does not rewrite them
	{
		pairs := [][2]string{
			{"SELECT alpha, beta, gamma(delta) FROM sch.tab1 t1 JOIN tab2 ON t1.k = tab2.k WHERE eps > 1", "SELECT uniform, victor, xray(zulu) FROM other.tab9 o JOIN tab8 ON o.q = tab8.q WHERE yank < 2"},
			{"SELECT a FROM t", "SELECT b1, b2, b3, b4, b5, b6, f1(b7), f2(b8) FROM u1, u2, u3 WHERE b9 = 1"},
			{"UPDATE acc SET bal = bal + 1 WHERE id IN (SELECT id FROM pend)", "DELETE FROM logs WHERE ts < now() AND lvl = lower(tag)"},
		}
		type api struct {
			name string
			f    func(t *ast.AST) []string
		}
		flat := func(xs any) []string { return []string{fmt.Sprintf("%+v", xs)} }
		apis := []api{
			{"ExtractTables", func(t *ast.AST) []string { return gosqlx.ExtractTables(t) }},
			{"ExtractColumns", func(t *ast.AST) []string { return gosqlx.ExtractColumns(t) }},
			{"ExtractFunctions", func(t *ast.AST) []string { return gosqlx.ExtractFunctions(t) }},
		}
		for _, pr := range pairs {
			ta, ea := gosqlx.Parse(pr[0])
			tb, eb := gosqlx.Parse(pr[1])
			if ea != nil || eb != nil {
				continue
			}
			for _, a := range apis {
				for rep := 0; rep < 50; rep++ {
					held := a.f(ta)
					snap := append([]string{}, held...)
					for _, b := range apis {
						_ = b.f(tb)
					}
					_ = gosqlx.ExtractMetadata(tb)
					res.count(fmt.Sprintf("held-list|%s|%s|%d", a.name, pr[0], rep), true)
					if strings.Join(held, "\x00") != strings.Join(snap, "\x00") {
						res.fail("held-list-modified:"+a.name, "a list returned by the extraction API changed when names were extracted from another tree", map[string]any{"held_from": pr[0], "then": pr[1]},
							map[string]any{"before": snap, "after": held})
						break
					}
				}
			}
			// the structured results: qualified names and the metadata record
			for rep := 0; rep < 50; rep++ {
				hq1, hq2, hm := gosqlx.ExtractTablesQualified(ta), gosqlx.ExtractColumnsQualified(ta), gosqlx.ExtractMetadata(ta)
				s1, s2, s3 := flat(hq1)[0], flat(hq2)[0], flat(*hm)[0]
				_ = gosqlx.ExtractTablesQualified(tb)
				_ = gosqlx.ExtractColumnsQualified(tb)
				_ = gosqlx.ExtractMetadata(tb)
				_ = gosqlx.ExtractColumns(tb)
				if flat(hq1)[0] != s1 || flat(hq2)[0] != s2 || flat(*hm)[0] != s3 {
					res.fail("held-list-modified:structured", "a structured extraction result (qualified names / metadata) changed when another tree was analysed", map[string]any{"held_from": pr[0], "then": pr[1]}, nil)
					break
				}
			}
			ast.ReleaseAST(ta)
			ast.ReleaseAST(tb)
		}
	}
	// results of the injection scanner stay the caller's
	{
		texts := []string{"SELECT a FROM t WHERE id = 1 OR 1=1; DROP TABLE users", "SELECT a FROM t WHERE SLEEP(5) = 0 OR 'a'='a'", "SELECT a FROM t UNION SELECT NULL, NULL",
			"SELECT LOAD_FILE('/etc/passwd')", "SELECT a FROM t WHERE x = x AND BENCHMARK(10, 1) = 0"}
		show := func(r *security.ScanResult) string {
			return fmt.Sprintf("%v|%d/%d/%d/%d/%d", findingsKey(r), r.TotalCount, r.CriticalCount, r.HighCount, r.MediumCount, r.LowCount)
		}
		for i, a := range texts {
			for j, b := range texts {
				if i == j {
					continue
				}
				heldRaw := security.NewScanner().ScanSQL(a)
				ta, ea := gosqlx.Parse(a)
				tb, eb := gosqlx.Parse(b)
				var heldTree *security.ScanResult
				if ea == nil {
					heldTree = security.NewScanner().Scan(ta)
				}
				s1 := show(heldRaw)
				s2 := ""
				if heldTree != nil {
					s2 = show(heldTree)
				}
				_ = security.NewScanner().ScanSQL(b)
				if eb == nil {
					_ = security.NewScanner().Scan(tb)
				}
				res.count(fmt.Sprintf("held-scan|%d|%d", i, j), true)
				if show(heldRaw) != s1 || (heldTree != nil && show(heldTree) != s2) {
					res.fail("held-scan-result-modified", "a scan result held by the caller changed when another text / tree was scanned", map[string]any{"held_from": a, "then": b},
						map[string]any{"before": []string{s1, s2}, "after": []string{show(heldRaw), show(heldTree)}})
				}
			}
		}
	}
	// tokens handed to a parsing entry point stay the caller's: no entry point writes into them
	for i, sqlText := range append([]string{"SELECT url, owner, member, policy, until, reset FROM t, LATERAL (SELECT 1) l WHERE a = ANY (SELECT 1) OR b = SOME (SELECT 2)",
		"SELECT a FROM t LEFT OUTER JOIN u ON t.i = u.i GROUP BY a ORDER BY a", "SELECT owner.url FROM owner", "SELECT \"select\", `from` FROM t"}, corpus...) {
		tk2, _ := tokenizer.New()
		toks, err := tk2.Tokenize([]byte(sqlText))
		if err != nil {
			continue
		}
		snap := fmtToksTyped(toks)
		for _, entry := range []string{"ParseFromModelTokens", "ParseFromModelTokensWithPositions", "ParseContextFromModelTokens", "ParseWithRecoveryFromModelTokens"} {
			p := parser.NewParser()
			switch entry {
			case "ParseFromModelTokens":
				if t, err := p.ParseFromModelTokens(toks); err == nil {
					ast.ReleaseAST(t)
				}
			case "ParseFromModelTokensWithPositions":
				if t, err := p.ParseFromModelTokensWithPositions(toks); err == nil {
					ast.ReleaseAST(t)
				}
			case "ParseContextFromModelTokens":
				if t, err := p.ParseContextFromModelTokens(context.Background(), toks); err == nil {
					ast.ReleaseAST(t)
				}
			default:
				_, _ = p.ParseWithRecoveryFromModelTokens(toks)
			}
			p.Release()
			res.count(fmt.Sprintf("toks-after-parse|%d|%s", i, entry), true)
			if now := fmtToksTyped(toks); now != snap {
				res.fail("held-tokens-modified-by-parse:"+entry, "a parsing entry point changed the tokens its caller passed in", map[string]any{"sql": truncate(sqlText, 300)}, map[string]any{"before": truncate(snap, 300), "after": truncate(now, 300)})
				break
			}
		}
		if i > c.n(400, 5000) {
			break
		}
	}
	// tokens and comments handed out by a tokenizer must survive its reuse
	tk, _ := tokenizer.New()
	for i := 0; i < c.n(200, 3000); i++ {
		a := "SELECT a -- first " + fmt.Sprint(i) + "\nFROM t /* c" + fmt.Sprint(i) + " */ WHERE x = 'v" + fmt.Sprint(i) + "'"
		toks, err := tk.Tokenize([]byte(a))
		if err != nil {
			continue
		}
		tokSnap := fmtToks(toks)
		comments := tk.Comments
		comSnap := fmtComments(comments)
		_, _ = tk.Tokenize([]byte("SELECT zz /* other */ -- tail\nFROM qq"))
		res.count("tok|"+a, true)
		if fmtToks(toks) != tokSnap {
			res.fail("held-tokens-modified", "tokens returned by Tokenize changed after the tokenizer was reused", map[string]any{"first": a}, nil)
		}
		if fmtComments(comments) != comSnap {
			res.fail("held-comments-modified", "comments read from Tokenizer.Comments changed after the tokenizer was reused (Reset truncates and reuses the backing array)",
				map[string]any{"first": a, "second": "SELECT zz /* other */ -- tail\nFROM qq", "before": comSnap, "after": fmtComments(comments)}, nil)
		}
	}
}

// fmtToksTyped: type, value, quote and span of every token
func fmtToksTyped(toks []models.TokenWithSpan) string {
	var sb strings.Builder
	for _, t := range toks {
		fmt.Fprintf(&sb, "%d:%q:%d:%d.%d-%d.%d ", int(t.Token.Type), t.Token.Value, t.Token.Quote, t.Start.Line, t.Start.Column, t.End.Line, t.End.Column)
	}
	return sb.String()
}
