package main

import (
	"fmt"
	"sort"
	"strconv"
	"strings"
	"syscall"
	"time"

	"github.com/ajitpratap0/GoSQLX/pkg/gosqlx"
	"github.com/ajitpratap0/GoSQLX/pkg/sql/ast"
	"github.com/ajitpratap0/GoSQLX/pkg/sql/security"
	"github.com/ajitpratap0/GoSQLX/pkg/sql/tokenizer"
)

func init() {
	props["C20"] = runC20
	// child side: data = "<op> <family> <n>"; answer = user CPU microseconds of the call (preparation excluded)
	childExtras["cost"] = func(data []byte) string {
		f := strings.Fields(string(data))
		if len(f) != 3 {
			return "bad-request"
		}
		n, _ := strconv.Atoi(f[2])
		fam, op := c20Families[f[1]], c20Ops[f[0]]
		if fam == nil || op.prepare == nil {
			return "bad-request"
		}
		input := fam(n)
		run, ok := op.prepare(input)
		if !ok {
			return "rejected " + strconv.Itoa(len(input))
		}
		c0 := cpuUser()
		run()
		return fmt.Sprintf("%d %d", (cpuUser()-c0)/time.Microsecond, len(input))
	}
}

func cpuUser() time.Duration {
	var ru syscall.Rusage
	_ = syscall.Getrusage(syscall.RUSAGE_SELF, &ru)
	return time.Duration(ru.Utime.Nano())
}

// input families, parameterised by n (the input grows linearly with n)
// names c0, c1, … cn joined by sep
func distinctNames(prefix string, n int, sep string) string {
	var b strings.Builder
	for i := 0; i <= n; i++ {
		if i > 0 {
			b.WriteString(sep)
		}
		b.WriteString(prefix)
		b.WriteString(strconv.Itoa(i))
	}
	return b.String()
}

var c20Families = map[string]func(n int) string{
	// wide lists of *distinct* names in every list position of the grammar
	"insert-column-list": func(n int) string {
		return "INSERT INTO t (" + distinctNames("c", n, ", ") + ") VALUES (1" + strings.Repeat(", 1", n) + ")"
	},
	"insert-column-list-select": func(n int) string { return "INSERT INTO t (" + distinctNames("c", n, ", ") + ") SELECT * FROM u" },
	"values-wide-row":           func(n int) string { return "INSERT INTO t VALUES (1" + strings.Repeat(", 1", n) + ")" },
	"distinct-select-list":      func(n int) string { return "SELECT " + distinctNames("c", n, ", ") + " FROM t" },
	"distinct-aliases":          func(n int) string { return "SELECT " + distinctNames("a AS c", n, ", ") + " FROM t" },
	"returning-list":            func(n int) string { return "INSERT INTO t (a) VALUES (1) RETURNING " + distinctNames("c", n, ", ") },
	"using-list":                func(n int) string { return "SELECT a FROM t JOIN u USING (" + distinctNames("c", n, ", ") + ")" },
	"cte-column-list": func(n int) string {
		return "WITH w (" + distinctNames("c", n, ", ") + ") AS (SELECT 1) SELECT * FROM w"
	},
	"create-index-columns": func(n int) string { return "CREATE INDEX i ON t (" + distinctNames("c", n, ", ") + ")" },
	"on-conflict-set-list": func(n int) string {
		return "INSERT INTO t (a) VALUES (1) ON CONFLICT (a) DO UPDATE SET " + distinctNames("c", n, " = 1, ") + " = 1"
	},
	"distinct-from-list":     func(n int) string { return "SELECT a FROM " + distinctNames("t", n, ", ") },
	"distinct-function-args": func(n int) string { return "SELECT f(" + distinctNames("c", n, ", ") + ") FROM t" },
	"partition-by-list": func(n int) string {
		return "SELECT SUM(a) OVER (PARTITION BY " + distinctNames("c", n, ", ") + ") FROM t"
	},
	"one-long-line":     func(n int) string { return "SELECT a" + strings.Repeat(", a", n) + " FROM t" },
	"many-lines":        func(n int) string { return "SELECT a\n" + strings.Repeat(", a\n", n) + "FROM t" },
	"comment-lines":     func(n int) string { return strings.Repeat("-- c\n", n) + "SELECT 1" },
	"inline-comments":   func(n int) string { return "SELECT a" + strings.Repeat(", a -- c\n", n) + " FROM t" },
	"block-comments":    func(n int) string { return "SELECT 1 " + strings.Repeat("/* c */ ", n) },
	"indented-comments": func(n int) string { return "SELECT 1\n" + strings.Repeat(" ", n) + strings.Repeat("/**/", n) },
	"not-chain": func(n int) string {
		return "SELECT a FROM t WHERE " + strings.Repeat("NOT (", 90) + "a = 1" + strings.Repeat(")", 90) + strings.Repeat(" AND NOT NOT NOT b", n)
	},
	"and-chain":               func(n int) string { return "SELECT a FROM t WHERE a = 1" + strings.Repeat(" AND a = 1", n) },
	"or-chain":                func(n int) string { return "SELECT a FROM t WHERE a = 1" + strings.Repeat(" OR b = 2", n) },
	"arith-chain":             func(n int) string { return "SELECT 1" + strings.Repeat(" + a * 2", n) + " FROM t" },
	"concat-chain":            func(n int) string { return "SELECT 'x'" + strings.Repeat(" || a", n) + " FROM t" },
	"in-list":                 func(n int) string { return "SELECT a FROM t WHERE a IN (1" + strings.Repeat(", 1", n) + ")" },
	"wide-values":             func(n int) string { return "INSERT INTO t (a) VALUES (1)" + strings.Repeat(", (1)", n) },
	"statements":              func(n int) string { return strings.Repeat("SELECT 1;\n", n) },
	"union-chain":             func(n int) string { return "SELECT 1" + strings.Repeat(" UNION SELECT 1", n/4+1) },
	"joins":                   func(n int) string { return "SELECT a FROM t" + strings.Repeat(" JOIN u ON t.a = u.a", n/4+1) },
	"long-string":             func(n int) string { return "SELECT '" + strings.Repeat("x", n*4) + "'" },
	"long-identifier":         func(n int) string { return "SELECT " + strings.Repeat("x", n*4) + " FROM t" },
	"many-strings":            func(n int) string { return "SELECT 'a'" + strings.Repeat(", 'it''s'", n) },
	"qualified-names":         func(n int) string { return "SELECT " + strings.Repeat("s.t.c, ", n) + "1 FROM t" },
	"case-whens":              func(n int) string { return "SELECT CASE" + strings.Repeat(" WHEN a = 1 THEN 2", n) + " END FROM t" },
	"function-args":           func(n int) string { return "SELECT f(1" + strings.Repeat(", a", n) + ") FROM t" },
	"ctes":                    func(n int) string { return "WITH c0 AS (SELECT 1)" + c20ctes(n/8+1) + " SELECT 1" },
	"crlf-lines":              func(n int) string { return "SELECT a\r\n" + strings.Repeat(", a\r\n", n) + "FROM t" },
	"tabs":                    func(n int) string { return "SELECT a" + strings.Repeat(",\ta", n) + " FROM t" },
	"non-ascii-identifier":    func(n int) string { return "SELECT é" + strings.Repeat(", é", n) + " FROM t" },
	"lookahead-words-line":    func(n int) string { return "SELECT full" + strings.Repeat(", left", n) + " FROM t" },
	"lookahead-words-lines":   func(n int) string { return "SELECT full\n" + strings.Repeat(", outer\n", n) + "FROM t" },
	"dollar-words":            func(n int) string { return "SELECT 1" + strings.Repeat(", $abc", n) },
	"alternating-arith-chain": func(n int) string { return "SELECT x" + strings.Repeat(" - a + b", n/2+1) + " FROM t" },
	"alternating-bool-chain": func(n int) string {
		return "SELECT a FROM t WHERE a = 1" + strings.Repeat(" AND b = 2 OR c = 3", n/2+1)
	},
	"alternating-mul-chain": func(n int) string { return "SELECT x" + strings.Repeat(" * a / b % c", n/3+1) + " FROM t" },
	"mixed-setop-chain": func(n int) string {
		return "SELECT 1" + strings.Repeat(" UNION SELECT 1 UNION ALL SELECT 2 EXCEPT SELECT 3", n/12+1)
	},
	"unclosed-dollar-tags": func(n int) string {
		var sb strings.Builder
		for i := 0; i < n/2+1; i++ {
			fmt.Fprintf(&sb, "SELECT $p%07d$ x;\n", i)
		}
		return sb.String()
	},
	"closed-dollar-tags": func(n int) string {
		var sb strings.Builder
		for i := 0; i < n/3+1; i++ {
			fmt.Fprintf(&sb, "SELECT $t%d$ x $t%d$;\n", i, i)
		}
		return sb.String()
	},
	"many-quoted-identifiers": func(n int) string { return "SELECT \"a\"" + strings.Repeat(", \"b c\"", n) + " FROM t" },
	"many-backticks":          func(n int) string { return "SELECT `a`" + strings.Repeat(", `b`", n) + " FROM t" },
	"nested-parens-list":      func(n int) string { return "SELECT a FROM t WHERE a IN ((1)" + strings.Repeat(", (1)", n) + ")" },
	"between-chain": func(n int) string {
		return "SELECT a FROM t WHERE a BETWEEN 1 AND 2" + strings.Repeat(" AND a BETWEEN 1 AND 2", n/2+1)
	},
	"like-chain": func(n int) string {
		return "SELECT a FROM t WHERE a LIKE 'x'" + strings.Repeat(" OR a NOT LIKE 'y'", n/2+1)
	},
	"is-null-chain": func(n int) string { return "SELECT a FROM t WHERE a IS NULL" + strings.Repeat(" AND b IS NOT NULL", n) },
	"insert-multi-row": func(n int) string {
		return "INSERT INTO t (a, b) VALUES (1, 'x')" + strings.Repeat(", (2, 'y')", n/2+1)
	},
	"update-set-list": func(n int) string {
		return "UPDATE t SET a = 1" + strings.Repeat(", b = b + 1", n/2+1) + " WHERE c = 2"
	},
	"select-no-from-statements": func(n int) string { return strings.Repeat("SELECT setval('s', 1);\n", n/2+1) },
	"window-functions": func(n int) string {
		return "SELECT a" + strings.Repeat(", SUM(b) OVER (PARTITION BY c ORDER BY d)", n/6+1) + " FROM t"
	},
	"subquery-list": func(n int) string { return "SELECT a" + strings.Repeat(", (SELECT 1)", n/3+1) + " FROM t" },
	"create-table-columns": func(n int) string {
		return "CREATE TABLE t (c0 INT" + strings.Repeat(", c1 VARCHAR(10) NOT NULL DEFAULT 'x'", n/5+1) + ")"
	},
	"placeholder-list": func(n int) string { return "SELECT a FROM t WHERE a IN (?" + strings.Repeat(", ?", n) + ")" },
	"blank-runs":       func(n int) string { return "SELECT a" + strings.Repeat(" ", n*2) + "FROM t" + strings.Repeat("\n", n) },
	"group-by-list":    func(n int) string { return "SELECT a FROM t GROUP BY a" + strings.Repeat(", a", n) },
	"order-by-list":    func(n int) string { return "SELECT a FROM t ORDER BY a" + strings.Repeat(", a DESC", n) },
}

func c20ctes(k int) string {
	var sb strings.Builder
	for i := 1; i <= k; i++ {
		fmt.Fprintf(&sb, ", c%d AS (SELECT 1)", i)
	}
	return sb.String()
}

type c20Op struct {
	// prepare does everything that is not the measured call; ok=false when the input is not accepted
	prepare func(input string) (run func(), ok bool)
}

func parsed(f func(t *ast.AST)) func(input string) (func(), bool) {
	return func(input string) (func(), bool) {
		t, err := gosqlx.Parse(input)
		if err != nil {
			return nil, false
		}
		return func() { f(t) }, true
	}
}

var c20Ops = map[string]c20Op{
	"tokenize": {func(in string) (func(), bool) {
		return func() { t, _ := tokenizer.New(); _, _ = t.Tokenize([]byte(in)) }, true
	}},
	"parse":    {func(in string) (func(), bool) { return func() { _, _ = gosqlx.Parse(in) }, true }},
	"sql":      {parsed(func(t *ast.AST) { _ = t.SQL() })},
	"format":   {parsed(func(t *ast.AST) { _ = t.Format(ast.FormatOptions{}) })},
	"scan":     {parsed(func(t *ast.AST) { _ = security.NewScanner().Scan(t) })},
	"scansql":  {func(in string) (func(), bool) { return func() { _ = security.NewScanner().ScanSQL(in) }, true }},
	"extract":  {parsed(func(t *ast.AST) { _ = gosqlx.ExtractMetadata(t) })},
	"recovery": {func(in string) (func(), bool) { return func() { _, _ = gosqlx.ParseWithRecovery(in) }, true }},
}

// nesting wrappers for the depth ladder: the statement of depth d nests one wrapper d times (the text grows linearly with d)
var c20DepthWrappers = map[string][2]string{
	"not":              {"SELECT a FROM t WHERE {E}", "NOT {E}"},
	"not-paren":        {"SELECT a FROM t WHERE {E}", "NOT ({E})"},
	"not-and":          {"SELECT a FROM t WHERE {E}", "NOT (b = 1 AND {E})"},
	"paren":            {"SELECT {E} FROM t", "({E})"},
	"unary-minus":      {"SELECT {E} FROM t", "- {E}"},
	"function-call":    {"SELECT {E} FROM t", "f({E})"},
	"case":             {"SELECT {E} FROM t", "CASE WHEN {E} = 1 THEN 1 ELSE 0 END"},
	"cast":             {"SELECT {E} FROM t", "CAST({E} AS INT)"},
	"arith-right":      {"SELECT {E} FROM t", "(1 + {E})"},
	"or-right":         {"SELECT a FROM t WHERE {E}", "(b = 1 OR {E})"},
	"between":          {"SELECT a FROM t WHERE {E}", "(({E}) BETWEEN 1 AND 2)"},
	"in-subquery":      {"{E}", "SELECT a FROM t WHERE a IN ({E})"},
	"exists-subquery":  {"{E}", "SELECT a FROM t WHERE EXISTS ({E})"},
	"scalar-subquery":  {"{E}", "SELECT a FROM t WHERE a = ({E})"},
	"derived-table":    {"{E}", "SELECT a FROM ({E}) z"},
	"cte-body":         {"{E}", "WITH c AS ({E}) SELECT a FROM c"},
	"select-list-subq": {"{E}", "SELECT ({E}) FROM t"},
}

func c20DepthText(w string, d int) string {
	fr := c20DepthWrappers[w]
	inner := "a"
	if fr[0] == "{E}" {
		inner = "SELECT a FROM t WHERE b = 1"
	}
	for i := 0; i < d; i++ {
		inner = strings.ReplaceAll(fr[1], "{E}", inner)
	}
	return strings.ReplaceAll(fr[0], "{E}", inner)
}

func init() {
	for w := range c20DepthWrappers {
		w := w
		c20Families["depth:"+w] = func(d int) string { return c20DepthText(w, d) }
	}
	// one wide element followed by many narrow ones of the same kind (n/2 entries, then n/8 repetitions): nothing the
	// wide one left behind — a size hint, a grown buffer, a remembered width — may be paid again by every later one
	narrowThenWide := func(wide func(w int) string, narrow string) func(n int) string {
		return func(n int) string { return wide(n/2+1) + strings.Repeat(narrow, n/8+1) }
	}
	c20Families["wide-then-narrow:in-lists"] = narrowThenWide(func(w int) string { return "SELECT a FROM t WHERE a IN (1" + strings.Repeat(", 1", w) + ");\n" }, "SELECT a FROM t WHERE a IN (1, 2, 3);\n")
	c20Families["wide-then-narrow:in-lists-one-statement"] = narrowThenWide(func(w int) string { return "SELECT a FROM t WHERE a IN (1" + strings.Repeat(", 1", w) + ")" }, " OR a IN (1, 2, 3)")
	c20Families["wide-then-narrow:values-rows"] = narrowThenWide(func(w int) string { return "INSERT INTO t VALUES (1" + strings.Repeat(", 1", w) + ");\n" }, "INSERT INTO t VALUES (1, 2, 3);\n")
	c20Families["wide-then-narrow:values-rows-one-statement"] = narrowThenWide(func(w int) string { return "INSERT INTO t (a) VALUES (1" + strings.Repeat(" + 1", w) + ")" }, ", (1)")
	c20Families["wide-then-narrow:select-lists"] = narrowThenWide(func(w int) string { return "SELECT a" + strings.Repeat(", a", w) + " FROM t;\n" }, "SELECT a, b, c FROM t;\n")
	c20Families["wide-then-narrow:function-args"] = narrowThenWide(func(w int) string { return "SELECT f(1" + strings.Repeat(", 1", w) + ")" }, ", f(1, 2, 3)")
	c20Families["wide-then-narrow:column-lists"] = narrowThenWide(func(w int) string { return "INSERT INTO t (" + distinctNames("c", w, ", ") + ") SELECT * FROM u;\n" }, "INSERT INTO t (a, b, c) SELECT * FROM u;\n")
	c20Families["wide-then-narrow:case-arms"] = narrowThenWide(func(w int) string { return "SELECT CASE" + strings.Repeat(" WHEN a = 1 THEN 2", w) + " END" }, ", CASE WHEN a = 1 THEN 2 END")
	c20Families["wide-then-narrow:tokens-lines"] = narrowThenWide(func(w int) string { return "SELECT " + strings.Repeat("a , ", w) + "a\n" }, "-- c\n, a\n")
	c20Families["wide-then-narrow:comments"] = narrowThenWide(func(w int) string { return "SELECT 1 /* " + strings.Repeat("c ", w) + "*/" }, " /* c */ , 1")
	c20Families["wide-then-narrow:strings"] = narrowThenWide(func(w int) string { return "SELECT '" + strings.Repeat("x", w*2) + "'" }, ", 'it''s'")
	// statements that fail late: whatever was read before the failure is not read again and again
	c20Families["broken-tail:union-chain"] = func(n int) string {
		return "SELECT 1" + strings.Repeat(" UNION ALL SELECT 1", n/4+1) + " UNION ALL SELECT FROM"
	}
	c20Families["broken-tail:and-chain"] = func(n int) string {
		return "SELECT a FROM t WHERE a = 1" + strings.Repeat(" AND a = 1", n/4+1) + " AND"
	}
	c20Families["broken-tail:insert-rows"] = func(n int) string { return "INSERT INTO t (a) VALUES (1)" + strings.Repeat(", (1)", n/4+1) + ", (" }
	c20Families["broken-tail:ctes"] = func(n int) string { return "WITH c0 AS (SELECT 1)" + c20ctes(n/8+1) + " SELECT FROM" }
	c20Families["broken-statements"] = func(n int) string { return strings.Repeat("SELECT FROM t WHERE;\n", n/4+1) }
	c20Families["broken-statements-with-keywords"] = func(n int) string {
		return strings.Repeat("SELECT a FROM t WHERE a IN (SELECT b FROM u WHERE c = (SELECT FROM;\n", n/8+1)
	}
	c20Families["broken-tail:subqueries-list"] = func(n int) string { return "SELECT a" + strings.Repeat(", (SELECT 1)", n/3+1) + ", (SELECT FROM" }
}

func runC20(c *runCtx) {
	res := c.res
	res.Rule = "for each input family (31 shapes: long lines, many lines, comment lines, inline and block comments, AND/OR/arithmetic/concatenation chains, wide lists, many statements, set-operation chains, joins, long literals and identifiers, CASE arms, CTEs, CRLF, tabs, non-ASCII) x each entry point (tokenize, parse, AST.SQL, AST.Format, Scan, ScanSQL, ExtractMetadata): user CPU time of the call alone, measured in a child process at sizes n, 2n, 4n (minimum of repeated runs; n raised until the call takes >= 25 ms or the input reaches the size ladder's top); a cell is superlinear when the cost more than triples at both doublings (n log n predicts ~2.1-2.3) and the largest run takes >= 150 ms (distinct = distinct (family, entry point) cells measured)"
	pool := newChildPool()
	pool.env = []string{"GOMAXPROCS=1"} // the collector runs on the measured thread: user time is that of one thread
	defer pool.Close()
	fams := make([]string, 0, len(c20Families))
	for f := range c20Families {
		fams = append(fams, f)
	}
	sort.Strings(fams)
	ops := make([]string, 0, len(c20Ops))
	for o := range c20Ops {
		ops = append(ops, o)
	}
	sort.Strings(ops)
	reps := c.n(2, 3)
	top := c.n(160000, 640000) // largest n tried
	measure := func(op, fam string, n int) (us int, size int, status string) {
		best := -1
		for r := 0; r < reps; r++ {
			ans := pool.Run("x:cost", []byte(fmt.Sprintf("%s %s %d", op, fam, n)), 90*time.Second)
			f := strings.Fields(ans)
			if len(f) == 2 && f[0] == "rejected" {
				return 0, 0, "rejected"
			}
			if len(f) != 2 {
				return 0, 0, ans // crash / hang / panic
			}
			v, _ := strconv.Atoi(f[0])
			size, _ = strconv.Atoi(f[1])
			if best < 0 || v < best {
				best = v
			}
			if v > 3_000_000 {
				break // one slow run is enough
			}
		}
		return best, size, "ok"
	}
	// the run keeps to a time budget: when the code under test is slow everywhere, the cells measured so far carry the
	// report (the driver gives the whole run 1500 s / 7200 s)
	deadline := c.start.Add(time.Duration(c.n(1000, 6000)) * time.Second)
	failedPerOp := map[string]int{}
	// the depth ladder first (short): nesting depth 12, 24, 48 of each wrapper (all below the parser's limit; the text
	// doubles with the depth): every entry point answers, and the cost does not explode with the depth
	depthFams := make([]string, 0, len(c20DepthWrappers))
	for w := range c20DepthWrappers {
		depthFams = append(depthFams, "depth:"+w)
	}
	sort.Strings(depthFams)
	for _, fam := range depthFams {
		for _, op := range ops {
			cell := op + ":" + fam
			var us [3]int
			status := "ok"
			for i, d := range []int{12, 24, 48} {
				ans := pool.Run("x:cost", []byte(fmt.Sprintf("%s %s %d", op, fam, d)), 40*time.Second)
				f := strings.Fields(ans)
				if len(f) == 2 && f[0] == "rejected" {
					status = "rejected"
					break
				}
				if len(f) != 2 {
					status = fmt.Sprintf("depth %d: %s", d, ans)
					break
				}
				us[i], _ = strconv.Atoi(f[0])
			}
			if status == "rejected" {
				res.stat("cell-rejected:" + cell)
				continue
			}
			res.count(cell, true)
			if status != "ok" {
				res.fail("no-answer:"+cell, "the call does not return in time on a statement nested to this depth (a kilobyte or two of text)", map[string]any{"family": fam, "entry": op, "text_at_depth_12": c20Families[fam](12)}, map[string]any{"outcome": status, "us_at_depth_12_24_48": us})
				continue
			}
			if us[2] >= 150000 && us[1] > 16*max(us[0], 1) && us[2] > 16*max(us[1], 1) {
				res.fail("superlinear:"+cell, "the cost grows more than sixteenfold at each doubling of the nesting depth", map[string]any{"family": fam, "entry": op}, map[string]any{"us_at_depth_12_24_48": us})
			}
		}
	}
	for _, fam := range fams {
		if strings.HasPrefix(fam, "depth:") {
			continue
		}
		for _, op := range ops {
			cell := op + ":" + fam
			if time.Now().After(deadline) {
				res.stat("cells-not-measured-budget-exhausted")
				continue
			}
			failedPerOp[op] = 0
			for _, f := range res.Failures {
				if strings.Contains(f.Key, ":"+op+":") {
					failedPerOp[op]++
				}
			}
			if failedPerOp[op] >= 6 {
				res.stat("cells-skipped-after-6-failures:" + op)
				continue
			}
			// find a base size with a measurable cost
			n := 5000
			var t1 int
			var st string
			for {
				t1, _, st = measure(op, fam, n)
				if st != "ok" || t1 >= 25000 || n*4 >= top {
					break
				}
				n *= 2
			}
			if st == "rejected" {
				res.stat("cell-rejected:" + cell)
				continue
			}
			res.count(cell, true)
			if st != "ok" {
				res.fail("no-answer:"+cell, "the call does not return in time at this size", map[string]any{"family": fam, "entry": op, "n": n}, map[string]any{"outcome": st})
				continue
			}
			t2, _, st2 := measure(op, fam, 2*n)
			t4, size4, st4 := 0, 0, "skipped"
			if st2 == "ok" {
				t4, size4, st4 = measure(op, fam, 4*n)
			}
			if st2 != "ok" || st4 != "ok" {
				res.fail("no-answer:"+cell, "the call does not return in time at this size", map[string]any{"family": fam, "entry": op, "n": n}, map[string]any{"t_n_us": t1, "outcome_2n": st2, "outcome_4n": st4})
				continue
			}
			r1 := float64(t2) / float64(max(t1, 1))
			r2 := float64(t4) / float64(max(t2, 1))
			if i := len(res.Samples); i < 6 {
				res.sample(map[string]any{"cell": cell, "n": n, "us": []int{t1, t2, t4}, "bytes_at_4n": size4})
			}
			if t4 >= 150000 && r1 > 3.0 && r2 > 3.0 {
				// confirm on a second, independent measurement and one more doubling before reporting
				u1, _, a1 := measure(op, fam, n)
				u2, _, a2 := measure(op, fam, 2*n)
				u4, _, a4 := measure(op, fam, 4*n)
				u8, _, a8 := measure(op, fam, 8*n)
				if a1 == "ok" && a2 == "ok" && a4 == "ok" && a8 == "ok" &&
					!(float64(u2) > 3.0*float64(max(u1, 1)) && float64(u4) > 3.0*float64(max(u2, 1)) && float64(u8) > 3.0*float64(max(u4, 1))) {
					res.stat("unconfirmed:" + cell)
					continue
				}
				res.fail("superlinear:"+cell, "the cost more than triples at each doubling of the input", map[string]any{"family": fam, "entry": op, "n": n},
					map[string]any{"us_at_n_2n_4n": []int{t1, t2, t4}, "bytes_at_4n": size4, "ratios": []string{fmt.Sprintf("%.2f", r1), fmt.Sprintf("%.2f", r2)}})
			} else if t4 >= 150000 && r2 > 2.6 {
				res.stat("borderline:" + cell)
			}
		}
	}
}
