package main

import (
	"bytes"
	"encoding/json"
	"fmt"
	"os"
	"os/exec"
	"path/filepath"
	"sort"
	"strings"
	"time"

	"github.com/ajitpratap0/GoSQLX/pkg/sql/parser"
)

func init() { props["C19"] = runC19 }

type cliRun struct {
	exit   int
	stdout string
	stderr string
}

func runCLI(bin, dir string, stdin string, args ...string) cliRun {
	cmd := exec.Command(bin, args...)
	cmd.Dir = dir
	cmd.Env = []string{"HOME=" + dir, "PATH=/usr/bin:/bin", "NO_COLOR=1"}
	var so, se bytes.Buffer
	cmd.Stdout, cmd.Stderr = &so, &se
	if stdin != "" {
		cmd.Stdin = strings.NewReader(stdin)
	}
	done := make(chan error, 1)
	_ = cmd.Start()
	go func() { done <- cmd.Wait() }()
	var err error
	select {
	case err = <-done:
	case <-time.After(30 * time.Second):
		_ = cmd.Process.Kill()
		return cliRun{exit: -9}
	}
	r := cliRun{stdout: so.String(), stderr: se.String()}
	if err != nil {
		if ee, ok := err.(*exec.ExitError); ok {
			r.exit = ee.ExitCode()
		} else {
			r.exit = -1
		}
	}
	return r
}

// runCLIChunked feeds stdin in several pieces with a pause between them (a producer that flushes as it goes)
func runCLIChunked(bin, dir string, chunks []string, gap time.Duration, args ...string) cliRun {
	cmd := exec.Command(bin, args...)
	cmd.Dir = dir
	cmd.Env = []string{"HOME=" + dir, "PATH=/usr/bin:/bin", "NO_COLOR=1"}
	var so, se bytes.Buffer
	cmd.Stdout, cmd.Stderr = &so, &se
	w, err := cmd.StdinPipe()
	if err != nil {
		return cliRun{exit: -1}
	}
	if err := cmd.Start(); err != nil {
		return cliRun{exit: -1}
	}
	go func() {
		for i, ch := range chunks {
			if i > 0 {
				time.Sleep(gap)
			}
			_, _ = w.Write([]byte(ch))
		}
		_ = w.Close()
	}()
	done := make(chan error, 1)
	go func() { done <- cmd.Wait() }()
	select {
	case err = <-done:
	case <-time.After(30 * time.Second):
		_ = cmd.Process.Kill()
		return cliRun{exit: -9}
	}
	r := cliRun{stdout: so.String(), stderr: se.String()}
	if err != nil {
		if ee, ok := err.(*exec.ExitError); ok {
			r.exit = ee.ExitCode()
		} else {
			r.exit = -1
		}
	}
	return r
}

// libraryAccepts: the library's verdict on a file's content, as the CLI documents it (empty input is valid)
func libraryAccepts(content string, strict bool) bool {
	if len(content) == 0 {
		return true
	}
	toks := tokenizeFresh(content)
	if toks == nil {
		return false
	}
	var opts []parser.ParserOption
	if strict {
		opts = append(opts, parser.WithStrictMode())
	}
	_, err := parser.NewParser(opts...).ParseFromModelTokens(toks)
	return err == nil
}

func runC19(c *runCtx) {
	res := c.res
	res.Rule = "the gosqlx binary is built from /repo's working tree and run in a scratch directory (HOME and cwd inside it): validate over random sets of valid/invalid/lexically broken/empty/stray-semicolon files x {text,json,sarif} x --strict, inline SQL and stdin; format plain / -i / --check / --check -i x {default,--compact,--no-uppercase,--indent 4}; lint --auto-fix; for in-place writes a write failure is injected at byte offsets of the output with RLIMIT_FSIZE (prlimit) — exit status vs the library verdict, files never touched in check modes, print/-i/--check mutually consistent, JSON/SARIF name exactly the failing inputs, file = old or new after every injected failure (distinct = distinct (command line, file contents))"
	bin := verifDir + "/.bin/gosqlx"
	b := exec.Command("go", "build", "-o", bin, "./cmd/gosqlx")
	b.Dir = repoDir
	b.Env = append(os.Environ(), "GOFLAGS=-mod=mod", "GOPROXY=off", "GOSUMDB=off", "GOTOOLCHAIN=local")
	if out, err := b.CombinedOutput(); err != nil {
		res.corrFail("cli-build-failed", "go build ./cmd/gosqlx failed: "+truncate(string(out), 600), nil, nil)
		return
	}
	dir := fmt.Sprintf("%s/.work/c19-%d", verifDir, os.Getpid())
	_ = os.RemoveAll(dir)
	_ = os.MkdirAll(dir, 0o755)
	defer os.RemoveAll(dir)
	g := newSQLGen(c.rng.Fork())
	g.Plain = true
	pool := []string{"-- only a comment\n", "/* only a block comment */", "   \n\n\t\n", "-- c1\n-- c2\n\n", "-- c\nSELECT 1", "SELECT a FROM t", "select a,b from t where a=1", "SELECT a FROM t;\nSELECT b FROM u;", "SELECT FROM", "SELECT 'unterminated", "", ";; SELECT 1", "SELECT 1;;",
		"insert into t (a) values (1)", "SELECT a FROM t WHERE", "SELECT  a\n\tFROM   t  ", "UPDATE t SET a = 1 WHERE b = 2", "DELETE FROM t WHERE x IN (SELECT y FROM u)", "SELECT a FROM t -- trailing comment",
		"WITH c AS (SELECT 1) SELECT * FROM c", "CREATE TABLE t (a INT, b VARCHAR(10))", "garbage here"}
	for i := 0; i < 12; i++ {
		pool = append(pool, g.Statement())
	}
	// the same kinds of text as files come from other editors: CRLF and mixed line endings, a lone CR, a final newline or
	// several, a byte-order mark
	pool = append(pool, "SELECT a\r\nFROM t\r\nWHERE b = 1\r\n", "select a,b\r\nfrom t;\r\nselect c from u;\r\n", "SELECT a FROM t\r\n", "SELECT a\r\nFROM t\nWHERE b = 1\r", "SELECT a FROM t\n\n\n",
		"\ufeffSELECT a FROM t\n", "-- c\r\nSELECT 1\r\n", "SELECT FROM\r\n", "SELECT 'a\r\nb' FROM t\r\n", "select a from t where b = 1\r\n\r\n")
	write := func(name, content string) string {
		p := filepath.Join(dir, name)
		_ = os.MkdirAll(filepath.Dir(p), 0o755)
		_ = os.WriteFile(p, []byte(content), 0o644)
		return p
	}
	// A. validate
	nPool := len(pool)
	for r := 0; r < c.n(60, 1500)+nPool; r++ {
		n := 1 + c.rng.Intn(4)
		var names, contents []string
		if r < nPool {
			// same base name in different directories, identical content (identical error text and position)
			n = 0
			k := 2 + r%2
			for i := 0; i < k; i++ {
				nm := fmt.Sprintf("same%d/m%03d/up.sql", r, i)
				write(nm, pool[r])
				names = append(names, nm)
				contents = append(contents, pool[r])
			}
		}
		for i := 0; i < n; i++ {
			ct := pool[c.rng.Intn(len(pool))]
			nm := fmt.Sprintf("v%d/f%d.sql", r%7, i)
			if c.rng.Chance(20) {
				nm = fmt.Sprintf("v%d/sub%d/up.sql", r%7, i) // same base name in different directories
			}
			write(nm, ct)
			names = append(names, nm)
			contents = append(contents, ct)
		}
		strict := c.rng.Chance(35)
		format := c.rng.Pick([]string{"text", "json", "sarif"})
		args := []string{"validate"}
		if strict {
			args = append(args, "--strict")
		}
		if format != "text" {
			args = append(args, "--output-format", format)
		}
		// flags that must change neither the verdict nor the shape of a machine-readable report
		for _, extra := range []string{"--stats", "-v"} {
			if c.rng.Chance(25) {
				args = append(args, extra)
			}
		}
		args = append(args, names...)
		out := runCLI(bin, dir, "", args...)
		var failing []string
		for i, ct := range contents {
			if !libraryAccepts(ct, strict) {
				failing = append(failing, names[i])
			}
		}
		sort.Strings(failing)
		res.count(strings.Join(args, " ")+"|"+strings.Join(contents, "\x00"), true)
		wit := map[string]any{"args": args, "files": contents}
		if r < 2 {
			res.sample(map[string]any{"args": args, "exit": out.exit, "failing_per_library": failing})
		}
		if (out.exit == 0) != (len(failing) == 0) {
			key := "validate-exit"
			if strict {
				key = "validate-exit-strict"
			}
			res.fail(key, fmt.Sprintf("validate exits %d but the library %s", out.exit, map[bool]string{true: "rejects " + strings.Join(failing, ","), false: "accepts every input"}[len(failing) > 0]), wit, truncate(out.stderr, 300))
		}
		switch format {
		case "json":
			var js struct {
				Status string `json:"status"`
				Errors []struct {
					File string `json:"file"`
				} `json:"errors"`
				Results struct {
					Invalid int `json:"invalid_files"`
					Total   int `json:"total_files"`
				} `json:"results"`
			}
			if err := json.Unmarshal([]byte(out.stdout), &js); err != nil {
				res.fail("validate-json-malformed", "validate --output-format json does not print one well-formed JSON document", wit, truncate(out.stdout, 300))
			} else {
				var got []string
				for _, e := range js.Errors {
					got = append(got, e.File)
				}
				sort.Strings(got)
				if strings.Join(got, ",") != strings.Join(failing, ",") {
					res.fail("validate-json-names", "the JSON report does not name exactly the failing inputs", wit, map[string]any{"reported": got, "failing": failing})
				}
			}
		case "sarif":
			var sf struct {
				Runs []struct {
					Results []struct {
						Locations []struct {
							PhysicalLocation struct {
								ArtifactLocation struct {
									URI string `json:"uri"`
								} `json:"artifactLocation"`
							} `json:"physicalLocation"`
						} `json:"locations"`
					} `json:"results"`
				} `json:"runs"`
			}
			if err := json.Unmarshal([]byte(out.stdout), &sf); err != nil || len(sf.Runs) != 1 {
				res.fail("validate-sarif-malformed", "validate --output-format sarif does not print one well-formed SARIF document", wit, truncate(out.stdout, 300))
			} else {
				var got []string
				for _, rr := range sf.Runs[0].Results {
					for _, l := range rr.Locations {
						got = append(got, filepath.ToSlash(l.PhysicalLocation.ArtifactLocation.URI))
					}
				}
				sort.Strings(got)
				if strings.Join(got, ",") != strings.Join(failing, ",") {
					res.fail("validate-sarif-names", "the SARIF report does not name exactly the failing inputs", wit, map[string]any{"reported": got, "failing": failing})
				}
			}
		}
	}
	// inline and stdin
	for _, ct := range pool {
		if ct == "" || !strings.Contains(strings.ToUpper(ct), "SELECT") {
			continue
		}
		want := 0
		if !libraryAccepts(ct, false) {
			want = 1
		}
		if o := runCLI(bin, dir, ct, "validate", "-"); o.exit != want {
			res.fail("validate-exit-stdin", fmt.Sprintf("validate - (stdin) exits %d, library verdict %d", o.exit, want), map[string]any{"stdin": ct}, truncate(o.stderr, 200))
		}
		res.count("stdin|"+ct, true)
	}
	// stdin that arrives in pieces is the same input: exit status and standard output equal those of the one-piece run
	{
		var valid []string
		for _, ct := range pool {
			if strings.TrimSpace(ct) != "" && libraryAccepts(ct, false) && !strings.Contains(ct, "--") {
				valid = append(valid, ct)
			}
		}
		for r := 0; r < c.n(12, 200) && len(valid) > 0; r++ {
			first := strings.TrimRight(valid[c.rng.Intn(len(valid))], "; \n") + ";\n"
			second := pool[c.rng.Intn(len(pool))]
			if strings.TrimSpace(second) == "" {
				second = "SELECT FROM"
			}
			for _, cmdl := range [][]string{{"validate", "-"}, {"validate", "--output-format", "json", "-"}, {"lint", "--fail-on-warn", "-"}, {"format", "-"}, {"parse", "-"}} {
				whole := runCLI(bin, dir, first+second, cmdl...)
				pieces := runCLIChunked(bin, dir, []string{first, second}, 120*time.Millisecond, cmdl...)
				res.count("chunked|"+strings.Join(cmdl, " ")+"|"+first+second, true)
				// (reports carry timings and unordered maps: only the formatter's output is compared byte for byte)
				if whole.exit != pieces.exit || (cmdl[0] == "format" && whole.stdout != pieces.stdout) {
					res.fail("stdin-in-pieces:"+cmdl[0], fmt.Sprintf("%s reads stdin that arrives in two pieces differently from the same text in one piece (exit %d vs %d)", strings.Join(cmdl, " "), pieces.exit, whole.exit),
						map[string]any{"command": cmdl, "first_piece": first, "second_piece": second}, map[string]any{"stdout_pieces": truncate(pieces.stdout, 200), "stdout_whole": truncate(whole.stdout, 200)})
				}
			}
		}
	}
	// A'. parse and analyze: the exit status is the library's verdict under every output format and input route
	for r := 0; r < c.n(40, 600); r++ {
		ct := pool[c.rng.Intn(len(pool))]
		if strings.TrimSpace(ct) == "" {
			continue
		}
		accepted := libraryAccepts(ct, false)
		for _, sub := range [][]string{{"parse"}, {"parse", "--ast"}, {"parse", "--tokens"}, {"analyze"}, {"analyze", "--security"}} {
			for _, ff := range [][]string{nil, {"-f", "json"}, {"-f", "yaml"}, {"-f", "table"}, {"--format", "JSON"}} {
				if c.quick && (r+len(sub)+len(ff))%3 != 0 {
					continue
				}
				f := write("pa/a.sql", ct)
				viaFile := runCLI(bin, dir, "", append(append(append([]string{}, sub...), ff...), "pa/a.sql")...)
				viaStdin := runCLI(bin, dir, ct, append(append(append([]string{}, sub...), ff...), "-")...)
				res.count(fmt.Sprintf("%v|%v|%s", sub, ff, ct), true)
				wit := map[string]any{"command": append(append([]string{}, sub...), ff...), "file": ct}
				if after, _ := os.ReadFile(f); string(after) != ct {
					res.fail("read-only-command-modifies-file", sub[0]+" rewrote its input file", wit, nil)
				}
				if sub[0] == "parse" && len(sub) == 2 && sub[1] == "--tokens" {
					continue // token output needs only a lexically valid input
				}
				if accepted != (viaFile.exit == 0) {
					res.fail(sub[0]+"-exit", fmt.Sprintf("%s exits %d on the file but the library accepts=%v", sub[0], viaFile.exit, accepted), wit, truncate(viaFile.stderr, 200))
				}
				if (viaFile.exit == 0) != (viaStdin.exit == 0) {
					res.fail(sub[0]+"-exit-file-vs-stdin", fmt.Sprintf("%s exits %d on the file and %d on the same text from stdin", sub[0], viaFile.exit, viaStdin.exit), wit, nil)
				}
			}
		}
	}
	// A2. large sets of files: the verdict does not depend on how many inputs fail (exit statuses are small numbers: a
	// count of failures must not be what the process exits with), through arguments, a directory walk and every report format
	for _, nBad := range []int{255, 256, 257, 512, c.n(300, 1024)} {
		sub := fmt.Sprintf("many%d", nBad)
		var names []string
		for i := 0; i < nBad; i++ {
			nm := fmt.Sprintf("%s/bad%04d.sql", sub, i)
			write(nm, []string{"SELECT FROM", "SELECT 'open", "garbage here", "SELECT a FROM t WHERE"}[i%4])
			names = append(names, nm)
		}
		write(sub+"/good.sql", "SELECT a FROM t")
		for _, args := range [][]string{append([]string{"validate", "--quiet"}, names...), {"validate", "-r", sub}, append([]string{"validate", "--output-format", "json"}, names...)} {
			out := runCLI(bin, dir, "", args...)
			res.count(fmt.Sprintf("many|%d|%s", nBad, strings.Join(args[:2], " ")), true)
			if out.exit == 0 {
				res.fail("validate-exit", fmt.Sprintf("validate exits 0 although %d of the given files are rejected by the library", nBad), map[string]any{"args": args[:2], "rejected_files": nBad, "command": strings.Join(args[:min(len(args), 4)], " ") + " …"}, truncate(out.stderr, 200))
			}
		}
		for _, args := range [][]string{append([]string{"lint"}, names[:min(nBad, 300)]...), append([]string{"format", "--check"}, names...)} {
			out := runCLI(bin, dir, "", args...)
			res.count(fmt.Sprintf("many|%d|%s", nBad, args[0]), true)
			if args[0] == "format" && out.exit == 0 {
				res.fail("format-exit", fmt.Sprintf("format --check exits 0 although none of the %d given files can be processed", nBad), map[string]any{"rejected_files": nBad}, truncate(out.stderr, 200))
			}
		}
	}
	// A3. the ways a file can be named on the command line (./x, ../dir/x, dot-directories, dir/../x, absolute), each next to
	// a look-alike file that passes: the reports name exactly the failing inputs — a name that resolves to another file
	// is another file
	{
		proj := filepath.Join(dir, "proj")
		w := func(rel, content string) { write(filepath.Join("proj", rel), content) }
		bad, good := "SELECT FROM", "SELECT a FROM t"
		write("shared/q.sql", bad)
		w("shared/q.sql", good)
		w(".staging/q.sql", bad)
		w("staging/q.sql", good)
		w("a.sql", bad)
		w("sub/x.sql", good)
		w("x.sql", bad)
		w("..data/y.sql", bad)
		w("data/y.sql", good)
		write("abs/bad.sql", bad)
		args := []string{"../shared/q.sql", "shared/q.sql", ".staging/q.sql", "staging/q.sql", "./a.sql", "sub/x.sql", "sub/../x.sql", "..data/y.sql", "data/y.sql", filepath.Join(dir, "abs", "bad.sql")}
		failing := map[string]bool{}
		for _, a := range []string{"../shared/q.sql", ".staging/q.sql", "./a.sql", "sub/../x.sql", "..data/y.sql", filepath.Join(dir, "abs", "bad.sql")} {
			failing[resolveIn(proj, a)] = true
		}
		for _, format := range []string{"json", "sarif"} {
			out := runCLI(bin, proj, "", append([]string{"validate", "--output-format", format}, args...)...)
			res.count("path-shapes|"+format, true)
			var names []string
			if format == "json" {
				var js struct {
					Errors []struct {
						File string `json:"file"`
					} `json:"errors"`
				}
				if json.Unmarshal([]byte(out.stdout), &js) != nil {
					res.fail("validate-json-malformed", "validate --output-format json does not print one well-formed JSON document", map[string]any{"args": args}, truncate(out.stdout, 300))
					continue
				}
				for _, e := range js.Errors {
					names = append(names, e.File)
				}
			} else {
				var sf struct {
					Runs []struct {
						Results []struct {
							Locations []struct {
								PhysicalLocation struct {
									ArtifactLocation struct {
										URI string `json:"uri"`
									} `json:"artifactLocation"`
								} `json:"physicalLocation"`
							} `json:"locations"`
						} `json:"results"`
					} `json:"runs"`
				}
				if json.Unmarshal([]byte(out.stdout), &sf) != nil || len(sf.Runs) != 1 {
					res.fail("validate-sarif-malformed", "validate --output-format sarif does not print one well-formed SARIF document", map[string]any{"args": args}, truncate(out.stdout, 300))
					continue
				}
				for _, rr := range sf.Runs[0].Results {
					for _, l := range rr.Locations {
						names = append(names, strings.TrimPrefix(l.PhysicalLocation.ArtifactLocation.URI, "file://"))
					}
				}
			}
			got := map[string]bool{}
			for _, n := range names {
				got[resolveIn(proj, n)] = true
			}
			var missing, extra []string
			for f := range failing {
				if !got[f] {
					missing = append(missing, f)
				}
			}
			for f := range got {
				if !failing[f] {
					extra = append(extra, f)
				}
			}
			sort.Strings(missing)
			sort.Strings(extra)
			if len(missing)+len(extra) > 0 {
				res.fail("validate-"+format+"-names", "the "+strings.ToUpper(format)+" report does not name exactly the failing inputs (names resolved against the working directory)", map[string]any{"working_directory": "proj", "args": args},
					map[string]any{"reported": names, "failing_not_named": missing, "named_but_not_failing": extra})
			}
		}
	}
	// B. format consistency
	flagSets := [][]string{{}, {"--compact"}, {"--no-uppercase"}, {"--indent", "4"}, {"--compact", "--no-uppercase"}}
	for r := 0; r < c.n(50, 1200); r++ {
		ct := pool[c.rng.Intn(len(pool))]
		if ct == "" {
			continue
		}
		if c.rng.Chance(30) {
			ct = strings.ReplaceAll(strings.ReplaceAll(ct, "\r\n", "\n"), "\n", "\r\n") + c.rng.Pick([]string{"\r\n", "", "\r\n\r\n"})
		}
		fl := flagSets[c.rng.Intn(len(flagSets))]
		f1 := write("fmt/a.sql", ct)
		st0, _ := os.Stat(f1)
		plain := runCLI(bin, dir, "", append(append([]string{"format"}, fl...), "fmt/a.sql")...)
		check := runCLI(bin, dir, "", append(append([]string{"format", "--check"}, fl...), "fmt/a.sql")...)
		after, _ := os.ReadFile(f1)
		st1, _ := os.Stat(f1)
		res.count("format|"+strings.Join(fl, " ")+"|"+ct, true)
		wit := map[string]any{"flags": fl, "file": ct}
		if string(after) != ct || !st1.ModTime().Equal(st0.ModTime()) {
			res.fail("check-mode-modifies-file", "format / format --check modified the input file", wit, nil)
		}
		both := runCLI(bin, dir, "", append(append([]string{"format", "--check", "-i"}, fl...), "fmt/a.sql")...)
		after2, _ := os.ReadFile(f1)
		if string(after2) != ct {
			res.fail("check-mode-modifies-file", "format --check -i rewrote the input file", wit, map[string]any{"exit": both.exit})
		}
		_ = write("fmt/b.sql", ct)
		inpl := runCLI(bin, dir, "", append(append([]string{"format", "-i"}, fl...), "fmt/b.sql")...)
		wb, _ := os.ReadFile(filepath.Join(dir, "fmt/b.sql"))
		accepted := libraryAccepts(ct, false)
		if accepted != (plain.exit == 0) {
			res.fail("format-exit", fmt.Sprintf("format exits %d but the library accepts=%v", plain.exit, accepted), wit, truncate(plain.stderr, 200))
		}
		if !accepted {
			if string(wb) != ct {
				res.fail("inplace-after-failure", "format -i rewrote a file whose processing failed", wit, nil)
			}
			continue
		}
		printed := plain.stdout
		if printed != string(wb) && printed != string(wb)+"\n" {
			res.fail("format-print-vs-inplace", "the text `format` prints differs from the text `format -i` writes", wit, map[string]any{"printed": truncate(printed, 200), "written": truncate(string(wb), 200), "inplace_exit": inpl.exit})
		}
		needs := string(wb) != ct
		if needs != (check.exit != 0) {
			res.fail("format-check-verdict", fmt.Sprintf("format --check exits %d but -i %s the file", check.exit, map[bool]string{true: "changes", false: "does not change"}[needs]), wit, nil)
		}
		if both.exit != check.exit {
			res.fail("format-check-verdict", "format --check -i gives a different verdict than format --check", wit, map[string]any{"check": check.exit, "check_i": both.exit})
		}
		// formatting the formatted file again changes nothing
		again := runCLI(bin, dir, "", append(append([]string{"format", "--check"}, fl...), "fmt/b.sql")...)
		if again.exit != 0 {
			res.stat("format-not-stable") // C06's subject; counted, not judged here
		}
	}
	// C'. lint: the exit status is the verdict on what the file holds afterwards, whichever way the text came in
	{
		tg := &textGen{r: c.rng.Fork()}
		deep := "SELECT a\n" + strings.Repeat(" ", 24) + "FROM t\n"
		lintTexts := []string{
			"SELECT a FROM t\n", "select a   \nfrom t\n", "SELECT a  \n" + deep, deep, "SELECT a FROM t t2 JOIN u AS x ON t2.i = x.i   \n",
			"SELECT a,\n  b\n\t  , c   \nFROM t\n", strings.Repeat("x", 120) + "\n", "SELECT a FROM t   \n" + strings.Repeat("y", 130) + "   \n", "",
		}
		for i := 0; i < c.n(25, 300); i++ {
			lintTexts = append(lintTexts, tg.tame())
		}
		for ti, txt := range lintTexts {
			for _, fl := range [][]string{nil, {"--fail-on-warn"}, {"--max-length", "40", "--fail-on-warn"}} {
				f := write("lint/a.sql", txt)
				plain := runCLI(bin, dir, "", append(append([]string{"lint"}, fl...), "lint/a.sql")...)
				viaStdin := runCLI(bin, dir, txt, append(append([]string{"lint"}, fl...), "-")...)
				res.count(fmt.Sprintf("lint|%d|%v", ti, fl), true)
				wit := map[string]any{"flags": fl, "file": txt}
				if after, _ := os.ReadFile(f); string(after) != txt {
					res.fail("lint-modifies-file", "lint without --auto-fix rewrote the input file", wit, nil)
				}
				if (plain.exit == 0) != (viaStdin.exit == 0) && txt != "" {
					res.fail("lint-exit-file-vs-stdin", fmt.Sprintf("lint exits %d on the file and %d on the same text from stdin", plain.exit, viaStdin.exit), wit, nil)
				}
				fixed := runCLI(bin, dir, "", append(append([]string{"lint", "--auto-fix"}, fl...), "lint/a.sql")...)
				after, _ := os.ReadFile(f)
				recheck := runCLI(bin, dir, "", append(append([]string{"lint"}, fl...), "lint/a.sql")...)
				if fixed.exit == 0 && recheck.exit != 0 {
					res.fail("lint-autofix-exit", fmt.Sprintf("lint --auto-fix exits 0 but the file it left still fails the same lint (exit %d)", recheck.exit), wit,
						map[string]any{"file_after": truncate(string(after), 300), "recheck_output": truncate(recheck.stdout+recheck.stderr, 300)})
				}
				if fixed.exit != 0 && recheck.exit == 0 && plain.exit != 0 && string(after) != txt {
					res.stat("lint-autofix-exit-nonzero-though-clean-afterwards") // reports what it found before fixing: not judged
				}
			}
		}
	}
	// D. write failure injected at byte offsets of the new content (RLIMIT_FSIZE)
	for _, cmdline := range [][]string{{"format", "-i"}, {"lint", "--auto-fix"}} {
		old := "select   a,b  from   t   where  a=1  \n\n\n\nselect   c   from u  \n"
		f := write("crash/x.sql", old)
		ref := runCLI(bin, dir, "", append(cmdline, "crash/x.sql")...)
		newC, _ := os.ReadFile(f)
		if string(newC) == old {
			res.Notes = append(res.Notes, strings.Join(cmdline, " ")+": no rewrite happened for the crash-point probe (exit "+fmt.Sprint(ref.exit)+")")
			continue
		}
		offs := []int{}
		for k := 0; k <= len(newC); k++ {
			if !c.quick || k < 24 || k%5 == 0 || k >= len(newC)-8 {
				offs = append(offs, k)
			}
		}
		for _, k := range offs {
			_ = os.WriteFile(f, []byte(old), 0o644)
			args := append([]string{fmt.Sprintf("--fsize=%d", k), bin}, append(cmdline, "crash/x.sql")...)
			cmd := exec.Command("prlimit", args...)
			cmd.Dir = dir
			cmd.Env = []string{"HOME=" + dir, "PATH=/usr/bin:/bin"}
			_ = cmd.Run()
			got, _ := os.ReadFile(f)
			res.count(fmt.Sprintf("crash|%s|%d", strings.Join(cmdline, " "), k), true)
			if string(got) != old && string(got) != string(newC) {
				res.fail("inplace-partial-write:"+cmdline[0], fmt.Sprintf("a write failure after %d bytes left the file neither complete-old nor complete-new (%d bytes on disk)", k, len(got)),
					map[string]any{"command": cmdline, "fsize_limit": k, "old": old, "new": string(newC)}, truncate(string(got), 200))
				break
			}
		}
		ents, _ := os.ReadDir(filepath.Join(dir, "crash"))
		for _, e := range ents {
			if strings.HasSuffix(e.Name(), ".tmp") {
				_ = os.Remove(filepath.Join(dir, "crash", e.Name()))
			}
		}
	}
}

// resolveIn: the file a name given on the command line (or in a report) refers to, seen from the working directory
func resolveIn(wd, name string) string {
	name = filepath.FromSlash(name)
	if !filepath.IsAbs(name) {
		name = filepath.Join(wd, name)
	}
	return filepath.Clean(name)
}
