package main

import (
	"fmt"
	"sort"
	"strings"

	"github.com/ajitpratap0/GoSQLX/pkg/gosqlx"
	"github.com/ajitpratap0/GoSQLX/pkg/sql/ast"
	"github.com/ajitpratap0/GoSQLX/pkg/sql/security"
)

func init() { props["C16"] = runC16 }

type payload struct {
	name string
	cond string   // a condition
	want []string // documented (pattern:severity) findings of the payload itself
}

var c16Payloads = []payload{
	{"int-tautology", "1=1", []string{"TAUTOLOGY:CRITICAL"}},
	{"int-tautology-spaced", "7 = 7", []string{"TAUTOLOGY:CRITICAL"}},
	{"string-tautology", "'a'='a'", []string{"TAUTOLOGY:CRITICAL"}},
	{"ident-tautology", "x = x", []string{"TAUTOLOGY:CRITICAL"}},
	{"empty-string-tautology", "''=''", []string{"TAUTOLOGY:CRITICAL"}},
	{"blank-string-tautology", "' ' = ' '", []string{"TAUTOLOGY:CRITICAL"}},
	{"long-string-tautology", "'admin''--' = 'admin''--'", []string{"TAUTOLOGY:CRITICAL"}},
	{"zero-tautology", "0=0", []string{"TAUTOLOGY:CRITICAL"}},
	{"decimal-tautology", "1.0 = 1.0", []string{"TAUTOLOGY:CRITICAL"}},
	{"qualified-ident-tautology", "t.x = t.x", []string{"TAUTOLOGY:CRITICAL"}},
	{"upper-string-tautology", "'A'='A'", []string{"TAUTOLOGY:CRITICAL"}},
	{"or-tautology", "id = 5 OR 1=1", []string{"TAUTOLOGY:CRITICAL", "TAUTOLOGY:CRITICAL"}},
	{"or-tautology-left", "2=2 or id = 5", []string{"TAUTOLOGY:CRITICAL", "TAUTOLOGY:CRITICAL"}},
	{"sleep", "SLEEP(5) = 0", []string{"TIME_BASED:HIGH"}},
	{"pg_sleep-lower", "pg_sleep(5) = 0", []string{"TIME_BASED:HIGH"}},
	{"benchmark", "BENCHMARK(1000000, 1) = 0", []string{"TIME_BASED:HIGH"}},
	{"load_file", "LOAD_FILE('/etc/passwd') IS NOT NULL", []string{"OUT_OF_BAND:CRITICAL"}},
	{"xp_cmdshell-mixed", "Xp_CmdShell('dir') = 1", []string{"OUT_OF_BAND:CRITICAL"}},
	{"nested-call", "LENGTH(SLEEP(3)) > 0", []string{"TIME_BASED:HIGH"}},
}

type ctxTemplate struct {
	name string
	sql  string // contains {C}
}

var c16Contexts = []ctxTemplate{
	{"where", "SELECT a FROM t WHERE {C}"},
	{"and-right", "SELECT a FROM t WHERE a = 2 AND ({C})"},
	{"and-left", "SELECT a FROM t WHERE ({C}) AND a = 2"},
	{"or-operand", "SELECT a FROM t WHERE b = 3 OR ({C})"},
	{"not", "SELECT a FROM t WHERE NOT ({C})"},
	{"having", "SELECT a FROM t GROUP BY a HAVING {C}"},
	{"join-on", "SELECT a FROM t JOIN u ON {C}"},
	{"left-join-on-second", "SELECT a FROM t JOIN u ON t.i = u.k LEFT JOIN v ON {C}"},
	{"derived-table", "SELECT a FROM (SELECT a FROM t WHERE {C}) x"},
	{"derived-second-from", "SELECT a FROM (SELECT a FROM t WHERE {C}) x, (SELECT b FROM u) y, w"},
	{"in-subquery", "SELECT a FROM t WHERE a IN (SELECT b FROM u WHERE {C})"},
	{"exists-subquery", "SELECT a FROM t WHERE EXISTS (SELECT 1 FROM u WHERE {C})"},
	{"not-exists-subquery", "SELECT a FROM t WHERE NOT EXISTS (SELECT 1 FROM u WHERE {C})"},
	{"scalar-subquery", "SELECT (SELECT b FROM u WHERE {C}) FROM t"},
	{"any-subquery", "SELECT a FROM t WHERE a = ANY (SELECT b FROM u WHERE {C})"},
	{"cte-body", "WITH c AS (SELECT a FROM t WHERE {C}) SELECT a FROM c"},
	{"insert-select", "INSERT INTO t (a) SELECT a FROM u WHERE {C}"},
	{"update-where", "UPDATE t SET a = 1 WHERE {C}"},
	{"delete-where", "DELETE FROM t WHERE {C}"},
	{"case-when", "SELECT CASE WHEN {C} THEN 1 ELSE 0 END FROM t"},
	{"case-in-where", "SELECT a FROM t WHERE CASE WHEN {C} THEN true ELSE false END"},
	{"function-argument", "SELECT a FROM t WHERE COALESCE(({C}), true)"},
	{"in-list-element", "SELECT a FROM t WHERE b IN (({C}), false)"},
	{"between-bound", "SELECT a FROM t WHERE b BETWEEN ({C}) AND true"},
	{"union-left", "SELECT a FROM t WHERE {C} UNION SELECT a FROM u"},
	{"union-right", "SELECT a FROM t UNION SELECT a FROM u WHERE {C}"},
	{"union-chain-first", "SELECT a FROM t WHERE {C} UNION SELECT a FROM u UNION SELECT a FROM v"},
	{"union-chain-middle", "SELECT a FROM t UNION ALL SELECT a FROM u WHERE {C} EXCEPT SELECT a FROM v"},
	{"second-statement", "SELECT b FROM u WHERE id = 2; SELECT a FROM t WHERE {C}"},
	{"first-of-three", "SELECT a FROM t WHERE {C}; SELECT b FROM u; SELECT c FROM v"},
	{"order-by", "SELECT a FROM t ORDER BY ({C})"},
	{"select-list", "SELECT ({C}) FROM t"},
	{"returning", "DELETE FROM t WHERE a = 3 RETURNING ({C})"},
	{"on-conflict-where", "INSERT INTO t (a) VALUES (1) ON CONFLICT (a) DO UPDATE SET a = 2 WHERE {C}"},
	{"merge-on", "MERGE INTO t USING u ON {C} WHEN MATCHED THEN DELETE"},
	{"update-set-value", "UPDATE t SET a = ({C}) WHERE b = 2"},
	{"insert-values", "INSERT INTO t (a) VALUES (({C}))"},
	{"window-partition", "SELECT SUM(a) OVER (PARTITION BY ({C})) FROM t"},
	{"window-frame-bound", "SELECT SUM(a) OVER (ORDER BY a ROWS BETWEEN ({C}) PRECEDING AND CURRENT ROW) FROM t"},
	{"window-order", "SELECT SUM(a) OVER (ORDER BY ({C})) FROM t"},
	{"window-frame-end-after-current-row", "SELECT SUM(a) OVER (ORDER BY a ROWS BETWEEN CURRENT ROW AND ({C}) FOLLOWING) FROM t"},
	{"window-frame-end-after-unbounded", "SELECT SUM(a) OVER (ORDER BY a RANGE BETWEEN UNBOUNDED PRECEDING AND ({C}) FOLLOWING) FROM t"},
	{"window-frame-both-bounds-second", "SELECT SUM(a) OVER (ORDER BY a ROWS BETWEEN 1 PRECEDING AND ({C}) FOLLOWING) FROM t"},
	{"window-frame-single-bound", "SELECT SUM(a) OVER (ORDER BY a ROWS ({C}) PRECEDING) FROM t"},
	{"window-frame-in-named-window", "SELECT SUM(a) OVER w FROM t WINDOW w AS (ORDER BY a ROWS BETWEEN CURRENT ROW AND ({C}) FOLLOWING)"},
	{"window-second-function", "SELECT SUM(a) OVER (ORDER BY a), AVG(b) OVER (PARTITION BY c ORDER BY d ROWS BETWEEN UNBOUNDED PRECEDING AND ({C}) FOLLOWING) FROM t"},
	{"cte-recursive-arm", "WITH RECURSIVE c AS (SELECT a FROM t UNION ALL SELECT a FROM c WHERE {C}) SELECT a FROM c"},
	{"lateral-join", "SELECT a FROM t, LATERAL (SELECT b FROM u WHERE {C}) x"},
	{"join-using-then-where", "SELECT a FROM t JOIN u USING (i) WHERE {C}"},
	{"group-by", "SELECT a FROM t GROUP BY ({C})"},
	{"cast-operand", "SELECT CAST(({C}) AS INT) FROM t"},
	{"extract-like", "SELECT a FROM t WHERE b LIKE COALESCE(NULL, ({C}))"},
	{"and-chain-head-150", "SELECT a FROM t WHERE ({C})" + strings.Repeat(" AND b = 2", 150)},
	{"or-chain-head-150", "SELECT a FROM t WHERE ({C})" + strings.Repeat(" OR b = 2", 150)},
	{"and-chain-middle-300", "SELECT a FROM t WHERE c = 1" + strings.Repeat(" AND b = 2", 150) + " AND ({C})" + strings.Repeat(" AND b = 2", 150)},
	{"deep-nesting", "SELECT a FROM t WHERE a IN (SELECT b FROM (SELECT b FROM u WHERE EXISTS (SELECT 1 FROM v WHERE {C})) z)"},
	{"derived-tower-60", strings.Repeat("SELECT a FROM (", 60) + "SELECT a FROM t WHERE {C}" + strings.Repeat(") z", 60)},
	{"subquery-tower-40", strings.Repeat("SELECT a FROM t WHERE a = (", 40) + "SELECT a FROM t WHERE {C}" + strings.Repeat(")", 40)},
	{"paren-tower-60", "SELECT a FROM t WHERE " + strings.Repeat("(", 60) + "{C}" + strings.Repeat(")", 60)},
	{"case-tower-40", "SELECT " + strings.Repeat("CASE WHEN b = 1 THEN 1 ELSE ", 40) + "CASE WHEN {C} THEN 1 ELSE 0 END" + strings.Repeat(" END", 40) + " FROM t"},
	{"intersect-left", "SELECT a FROM t WHERE {C} INTERSECT SELECT a FROM u"},
	{"intersect-right", "SELECT a FROM t INTERSECT SELECT a FROM u WHERE {C}"},
	{"except-left", "SELECT a FROM t WHERE {C} EXCEPT SELECT a FROM u"},
	{"except-right", "SELECT a FROM t EXCEPT ALL SELECT a FROM u WHERE {C}"},
	{"intersect-in-cte", "WITH c AS (SELECT a FROM t INTERSECT SELECT a FROM u WHERE {C}) SELECT a FROM c"},
	{"except-in-subquery", "SELECT a FROM t WHERE a IN (SELECT b FROM u EXCEPT SELECT b FROM v WHERE {C})"},
	{"not-exists-subquery", "SELECT a FROM t WHERE NOT EXISTS (SELECT 1 FROM u WHERE {C})"},
	{"not-in-subquery", "SELECT a FROM t WHERE a NOT IN (SELECT b FROM u WHERE {C})"},
	{"all-subquery", "SELECT a FROM t WHERE a > ALL (SELECT b FROM u WHERE {C})"},
	// the same payload at two places of one statement: two findings, counted twice
	{"twice-and", "SELECT a FROM t WHERE ({C}) AND d = 5 AND ({C})"},
	{"twice-union-arms", "SELECT a FROM t WHERE {C} UNION SELECT a FROM u WHERE {C}"},
	{"twice-outer-and-subquery", "SELECT a FROM t WHERE ({C}) AND a IN (SELECT b FROM u WHERE {C})"},
	{"twice-two-statements", "SELECT a FROM t WHERE {C}; DELETE FROM u WHERE {C}"},
	{"twice-select-list-and-having", "SELECT ({C}) FROM t GROUP BY a HAVING {C}"},
}

// contexts that carry a documented finding of their own (a flagged call around, or beside, the place of the payload):
// the payload's findings are due in addition, and a benign condition leaves exactly the context's own
var c16CtxOwn = map[string][]string{
	"inside-sleep-case":       {"TIME_BASED:HIGH"},
	"inside-benchmark-arg":    {"TIME_BASED:HIGH"},
	"inside-load-file-case":   {"OUT_OF_BAND:CRITICAL"},
	"inside-pg-sleep-nested":  {"TIME_BASED:HIGH"},
	"beside-sleep-and":        {"TIME_BASED:HIGH"},
	"beside-load-file-select": {"OUT_OF_BAND:CRITICAL"},
	"after-sleep-statement":   {"TIME_BASED:HIGH"},
}

func init() {
	c16Contexts = append(c16Contexts,
		ctxTemplate{"inside-sleep-case", "SELECT a FROM t WHERE SLEEP(CASE WHEN {C} THEN 5 ELSE 0 END) = 0"},
		ctxTemplate{"inside-benchmark-arg", "SELECT a FROM t WHERE BENCHMARK(10, ({C})) = 0"},
		ctxTemplate{"inside-load-file-case", "SELECT LOAD_FILE(CASE WHEN {C} THEN 'a' ELSE 'b' END) FROM t"},
		ctxTemplate{"inside-pg-sleep-nested", "SELECT a FROM t WHERE pg_sleep(COALESCE((SELECT 1 FROM u WHERE {C}), 2)) IS NULL"},
		ctxTemplate{"beside-sleep-and", "SELECT a FROM t WHERE SLEEP(1) = 0 AND ({C})"},
		ctxTemplate{"beside-load-file-select", "SELECT LOAD_FILE('/x'), a FROM t WHERE {C}"},
		ctxTemplate{"after-sleep-statement", "SELECT SLEEP(2); SELECT a FROM t WHERE {C}"},
	)
}

var mixedCaseKeywords = map[string]bool{}

func init() {
	for _, k := range strings.Fields("SELECT FROM WHERE AND OR NOT UNION ALL INTERSECT EXCEPT NULL IN EXISTS ANY JOIN LEFT RIGHT INNER ON GROUP BY HAVING ORDER AS CASE WHEN THEN ELSE END BETWEEN LIKE IS WITH RECURSIVE INSERT INTO VALUES UPDATE SET DELETE RETURNING MERGE USING MATCHED LATERAL OVER PARTITION ROWS PRECEDING CURRENT ROW CONFLICT DO LIMIT OFFSET DISTINCT TRUE FALSE") {
		mixedCaseKeywords[k] = true
	}
}

func findingsKey(r *security.ScanResult) []string {
	var out []string
	for _, f := range r.Findings {
		out = append(out, string(f.Pattern)+":"+string(f.Severity))
	}
	return out
}

// subMultiset: every wanted (pattern, severity) occurs at least as often in got
// (a context may legitimately add findings of its own, e.g. "x OR <tautology>").
func subMultiset(want, got []string) bool {
	m := map[string]int{}
	for _, g := range got {
		m[g]++
	}
	for _, w := range want {
		if m[w] == 0 {
			return false
		}
		m[w]--
	}
	return true
}

func sortedCopy(xs []string) []string { ys := append([]string{}, xs...); sort.Strings(ys); return ys }

func layouts(r *Rng, sql string) []string {
	out := []string{sql, strings.ToLower(sql), strings.ReplaceAll(sql, " ", "  \n\t ")}
	// keyword case flipped per word
	ws := strings.Fields(sql)
	for i := range ws {
		if r.Bool() {
			ws[i] = strings.ToLower(ws[i])
		}
	}
	out = append(out, strings.Join(ws, " "))
	// keywords in alternating case (UnIoN, oR, sElEcT …); identifiers, calls and literals keep their spelling
	var mb strings.Builder
	inQ := false
	i := 0
	for i < len(sql) {
		ch := sql[i]
		if ch == '\'' {
			inQ = !inQ
		}
		if !inQ && (ch >= 'a' && ch <= 'z' || ch >= 'A' && ch <= 'Z' || ch == '_') {
			j := i
			for j < len(sql) && (sql[j] >= 'a' && sql[j] <= 'z' || sql[j] >= 'A' && sql[j] <= 'Z' || sql[j] == '_' || sql[j] >= '0' && sql[j] <= '9') {
				j++
			}
			w := sql[i:j]
			if mixedCaseKeywords[strings.ToUpper(w)] && (j >= len(sql) || sql[j] != '(') {
				for k := 0; k < len(w); k++ {
					if k%2 == 0 {
						mb.WriteByte(w[k] &^ 0x20)
					} else {
						mb.WriteByte(w[k] | 0x20)
					}
				}
			} else {
				mb.WriteString(w)
			}
			i = j
			continue
		}
		mb.WriteByte(ch)
		i++
	}
	out = append(out, mb.String())
	return out
}

func runC16(c *runCtx) {
	res := c.res
	res.Rule = "every documented payload x every condition/call position of the context catalogue (AND/OR/NOT operands, HAVING, JOIN ON, derived tables, IN/EXISTS/ANY/scalar sub-queries, CTE body, INSERT...SELECT, UPDATE/DELETE WHERE, CASE, function argument, IN list, BETWEEN bound, set-operation arms and chains, later/earlier statements of a script, ORDER BY, select list, RETURNING, ON CONFLICT WHERE, MERGE ON, ...) x 4 layouts x 4 thresholds; the (pattern,severity) multiset must contain the documented findings of the payload, a benign condition in the same context must produce none, the thresholds must filter, the counters must equal the list, scanning must neither change the tree nor depend on earlier scans; the Lean scan model (driver op scan) must return the same findings in the same order for the dumped real tree; plus UNION NULL probing and random generated statements for the correspondence (distinct = distinct (payload, context, layout))"
	drv := c.driver()
	sevs := []security.Severity{security.SeverityLow, security.SeverityMedium, security.SeverityHigh, security.SeverityCritical}
	rank := map[string]int{"LOW": 1, "MEDIUM": 2, "HIGH": 3, "CRITICAL": 4}
	check := func(sql string, want []string, judged bool, key string, sample bool) {
		tree, err := gosqlx.Parse(sql)
		if err != nil {
			res.stat("context-rejected:" + key)
			return
		}
		defer ast.ReleaseAST(tree)
		before := dumpNode(tree)
		hexTree := dumpNodeHex(tree)
		res.count(sql, true)
		base := security.NewScanner().Scan(tree)
		got := findingsKey(base)
		wit := map[string]any{"sql": sql}
		if sample {
			res.sample(map[string]any{"sql": sql, "findings": got})
		}
		if judged && !subMultiset(want, got) {
			res.fail("payload-findings:"+key, "a documented payload is not reported with its class and severity in this position (or something else is)", wit,
				map[string]any{"want": sortedCopy(want), "got": sortedCopy(got)})
		}
		// every result is produced first and read afterwards, as a caller that keeps its results does: a result must not
		// change when further scans (of this tree, at other thresholds) run
		held := map[security.Severity]*security.ScanResult{}
		heldSnap := map[security.Severity]string{}
		snapOf := func(r *security.ScanResult) string {
			return strings.Join(findingsKey(r), ",") + fmt.Sprintf("|%d,%d,%d,%d,%d", r.TotalCount, r.CriticalCount, r.HighCount, r.MediumCount, r.LowCount)
		}
		for _, sv := range sevs {
			sc, _ := security.NewScannerWithSeverity(sv)
			held[sv] = sc.Scan(tree)
			heldSnap[sv] = snapOf(held[sv])
		}
		if snapOf(base) != strings.Join(got, ",")+fmt.Sprintf("|%d,%d,%d,%d,%d", base.TotalCount, base.CriticalCount, base.HighCount, base.MediumCount, base.LowCount) {
			res.fail("held-scan-result-modified", "a scan result kept by the caller changed when the same tree was scanned again", wit, map[string]any{"first": got, "now": findingsKey(base)})
		}
		for _, sv := range sevs {
			if now := snapOf(held[sv]); now != heldSnap[sv] {
				res.fail("held-scan-result-modified", "a scan result kept by the caller changed when the same tree was scanned again (at another threshold)", wit, map[string]any{"threshold": sv, "first": heldSnap[sv], "now": now})
			}
		}
		// one scanner used again and again, its documented MinSeverity field set anew before each scan (in both
		// directions): each scan answers as a fresh scanner with that threshold does
		{
			reused := security.NewScanner()
			for _, sv := range []security.Severity{security.SeverityLow, security.SeverityCritical, security.SeverityMedium, security.SeverityHigh, security.SeverityLow, security.SeverityHigh} {
				reused.MinSeverity = sv
				if now := snapOf(reused.Scan(tree)); now != heldSnap[sv] {
					res.fail("scanner-reuse:threshold-reassigned", "a scanner whose MinSeverity was set anew answers differently from a fresh scanner with that threshold", wit,
						map[string]any{"threshold_now": sv, "reused": now, "fresh": heldSnap[sv]})
					break
				}
			}
			reusedText := security.NewScanner()
			for _, sv := range []security.Severity{security.SeverityCritical, security.SeverityLow, security.SeverityHigh} {
				reusedText.MinSeverity = sv
				fresh, _ := security.NewScannerWithSeverity(sv)
				if a, b := snapOf(reusedText.ScanSQL(sql)), snapOf(fresh.ScanSQL(sql)); a != b {
					res.fail("scanner-reuse:threshold-reassigned", "a scanner whose MinSeverity was set anew answers ScanSQL differently from a fresh scanner with that threshold", wit,
						map[string]any{"threshold_now": sv, "reused": a, "fresh": b})
					break
				}
			}
		}
		for _, sv := range sevs {
			r := held[sv]
			var wantF []string
			for _, f := range got {
				if rank[strings.SplitN(f, ":", 2)[1]] >= rank[string(sv)] {
					wantF = append(wantF, f)
				}
			}
			if strings.Join(findingsKey(r), ",") != strings.Join(wantF, ",") {
				res.fail("threshold-filter", "raising the minimum severity does not remove exactly the findings below it", wit, map[string]any{"threshold": sv, "got": findingsKey(r), "want": wantF})
			}
			cnt := map[string]int{}
			for _, f := range r.Findings {
				cnt[string(f.Severity)]++
			}
			if r.TotalCount != len(r.Findings) || r.CriticalCount != cnt["CRITICAL"] || r.HighCount != cnt["HIGH"] || r.MediumCount != cnt["MEDIUM"] || r.LowCount != cnt["LOW"] {
				res.fail("counts-inconsistent", "total / per-severity counts differ from the findings listed", wit,
					map[string]any{"threshold": sv, "total": r.TotalCount, "critical": r.CriticalCount, "high": r.HighCount, "medium": r.MediumCount, "low": r.LowCount, "findings": findingsKey(r)})
			}
			// correspondence with the Lean model
			if drv != nil && len(hexTree) < 200000 {
				ans, derr := drv.Ask("scan", string(sv)+" "+hexTree)
				if derr == nil {
					res.CorrCases++
					wantAns := strings.Join(findingsKey(r), ",") + fmt.Sprintf("|%d,%d,%d,%d,%d", r.TotalCount, r.CriticalCount, r.HighCount, r.MediumCount, r.LowCount)
					if ans != wantAns {
						res.corrFail("scan-model", "Lean scan model differs from Scanner.Scan on the dumped tree", map[string]any{"sql": sql, "threshold": sv}, map[string]any{"model": ans, "real": wantAns})
					}
				}
			}
		}
		again := security.NewScanner().Scan(tree)
		if strings.Join(findingsKey(again), ",") != strings.Join(got, ",") {
			res.fail("scan-not-pure", "a second scan of the same tree returns different findings", wit, nil)
		}
		if dumpNode(tree) != before {
			res.fail("scan-modifies-tree", "scanning modified the tree", wit, nil)
		}
	}
	n := 0
	for _, p := range c16Payloads {
		for _, ctx := range c16Contexts {
			sql := strings.ReplaceAll(ctx.sql, "{C}", p.cond)
			want := p.want
			if strings.HasPrefix(ctx.name, "twice-") {
				want = append(append([]string{}, p.want...), p.want...)
			}
			if own := c16CtxOwn[ctx.name]; own != nil {
				want = append(append([]string{}, p.want...), own...)
			}
			for li, lay := range layouts(c.rng, sql) {
				if c.quick && li > 1 && li < 4 && (n%3 != 0) {
					n++
					continue
				}
				n++
				check(lay, want, true, ctx.name, n < 3)
			}
			// redundant parentheses around the payload
			check(strings.ReplaceAll(ctx.sql, "{C}", "(("+p.cond+"))"), want, true, ctx.name, false)
		}
	}
	// every context with a benign condition: no finding at all (no false positives from the context itself)
	for _, ctx := range c16Contexts {
		sql := strings.ReplaceAll(ctx.sql, "{C}", "c = 4")
		tree, err := gosqlx.Parse(sql)
		if err != nil {
			continue
		}
		if r := security.NewScanner().Scan(tree); strings.Join(sortedCopy(findingsKey(r)), ",") != strings.Join(sortedCopy(c16CtxOwn[ctx.name]), ",") {
			res.fail("benign-flagged:"+ctx.name, "a statement with a benign condition is reported", map[string]any{"sql": sql}, map[string]any{"got": findingsKey(r)})
		}
		res.count(sql, true)
		ast.ReleaseAST(tree)
	}
	// UNION probing with NULL columns
	for _, u := range []struct {
		sql  string
		want []string
	}{
		{"SELECT a, b FROM t UNION SELECT NULL, NULL", []string{"UNION_BASED:HIGH"}},
		{"select a, b, c from t union all select null, null, null from u", []string{"UNION_BASED:HIGH"}},
		{"SELECT a FROM t WHERE a IN (SELECT x FROM v UNION SELECT NULL, NULL)", []string{"UNION_BASED:HIGH"}},
		{"SELECT a, b FROM t UNION SELECT c, NULL FROM u", nil},
		{"SELECT a, b, c FROM t UNION SELECT login, NULL, secret FROM u", nil},
		{"SELECT a, b, c FROM t UNION SELECT x, NULL, NULL FROM u", nil},
		{"SELECT a, b, c FROM t UnIoN SeLeCt NuLl, nUlL, NULL", []string{"UNION_BASED:HIGH"}},
		{"SELECT a FROM t uNiOn select Table_Name from Information_Schema.Tables", []string{"UNION_BASED:CRITICAL"}},
		{"WITH c AS (SELECT a, b FROM t UNION SELECT NULL, NULL) SELECT * FROM c", []string{"UNION_BASED:HIGH"}},
		{"SELECT a FROM t UNION SELECT table_name FROM information_schema.tables", []string{"UNION_BASED:CRITICAL"}},
		{"SELECT a FROM t UNION SELECT name FROM sqlite_master", []string{"UNION_BASED:CRITICAL"}},
		{"SELECT a FROM t WHERE a IN (SELECT b FROM u UNION SELECT usename FROM PG_CATALOG.pg_user)", []string{"UNION_BASED:CRITICAL"}},
		{"SELECT a FROM t UNION SELECT b FROM systems", nil},
		{"SELECT a, b FROM t UNION ALL SELECT NULL, NULL FROM pg_catalog.pg_tables", []string{"UNION_BASED:HIGH", "UNION_BASED:CRITICAL"}},
		{"SELECT a FROM t WHERE a IN (SELECT x FROM v UNION SELECT NULL, NULL FROM information_schema.columns)", []string{"UNION_BASED:HIGH", "UNION_BASED:CRITICAL"}},
	} {
		check(u.sql, u.want, true, "union-null", false)
	}
	// random statements: correspondence, thresholds, counts, purity
	g := newSQLGen(c.rng.Fork())
	for i := 0; i < c.n(300, 20000); i++ {
		check(g.Statement(), nil, false, "random", false)
	}
	// the raw-text scan (ScanSQL): the findings of a text are kept under re-layout — blanks of any kind and number between
	// words and before an opening parenthesis, and letter case — and its counters equal its list
	{
		texts := []string{
			"SELECT * FROM users WHERE id = 1 OR SLEEP(5)", "SELECT * FROM users WHERE id = 1 AND pg_sleep(10) IS NULL", "SELECT BENCHMARK(1000000, MD5('a'))",
			"SELECT LOAD_FILE('/etc/passwd')", "SELECT a FROM t INTO OUTFILE '/tmp/x'", "SELECT a FROM t INTO DUMPFILE '/tmp/x'", "EXEC xp_cmdshell('dir')",
			"SELECT a FROM t WHERE id = 1 OR 1=1", "SELECT a FROM t WHERE name = '' OR 'a'='a'", "SELECT a FROM t UNION SELECT NULL, NULL", "SELECT a FROM t UNION ALL SELECT table_name FROM information_schema.tables",
			"SELECT a FROM t WHERE id = 1; DROP TABLE users", "SELECT a FROM t WHERE id = 1 -- AND pw = 'x'", "SELECT a FROM t WHERE id = 1 /* x */ OR 1=1", "SELECT WAITFOR DELAY '0:0:5'", "SELECT a FROM t WHERE id = 1 OR SLEEP(5) OR BENCHMARK(10, 1)",
		}
		relayouts := []struct {
			name string
			f    func(string) string
		}{
			{"blank-before-paren", func(t string) string { return strings.ReplaceAll(t, "(", " (") }},
			{"tab-before-paren", func(t string) string { return strings.ReplaceAll(t, "(", "\t(") }},
			{"newline-before-paren", func(t string) string { return strings.ReplaceAll(t, "(", "\n(") }},
			{"double-blanks", func(t string) string { return blanksOutsideQuotes(t, "  ") }},
			{"tabs", func(t string) string { return blanksOutsideQuotes(t, "\t") }},
			{"newlines", func(t string) string { return blanksOutsideQuotes(t, "\n") }},
			{"mixed-blanks", func(t string) string { return blanksOutsideQuotes(t, " \t\n ") }},
			{"lower-case", func(t string) string { return lowerOutsideQuotes(t) }},
			{"upper-case", func(t string) string { return upperOutsideQuotes(t) }},
		}
		// one text per pattern of the raw-text scan (every comment form, every call and statement form): thresholds and counters only
		patternTexts := []string{
			"SELECT a FROM t WHERE id = 1 --", "SELECT a FROM t WHERE n = 'x' --' AND p = 'y'", "SELECT a FROM t WHERE n = (1) --) AND p = 2", "SELECT a FROM t /* c */", "SELECT /*!50000 a */ FROM t",
			"SELECT a FROM t #", "SELECT a FROM t; -- x", "SELECT a FROM t WHERE id = 1 OR SLEEP(5); -- x", "SELECT a FROM t WHERE n = '' OR 1=1 --' AND p = ''", "SELECT LOAD_FILE('/x'); --",
			"SELECT DBMS_LOCK.SLEEP(5) FROM dual", "SELECT UTL_HTTP.request('x') FROM dual", "SELECT DBMS_LDAP.init('x', 1) FROM dual", "EXEC master..xp_dirtree 'x'", "EXEC sp_oacreate 'x'",
			"EXEC('select 1')", "EXECUTE IMMEDIATE 'select 1'", "EXEC sp_executesql N'select 1'", "PREPARE s FROM 'select 1'", "SELECT 1; EXEC x", "SELECT 1; EXECUTE x", "SELECT 1; TRUNCATE TABLE t",
			"SELECT a FROM t UNION SELECT b FROM information_schema.tables; DROP TABLE t --", "SELECT a FROM t WHERE id = 1 OR SLEEP(5) -- ' x", "EXEC('x'); -- y",
		}
		isPatternText := map[string]bool{}
		for _, t := range patternTexts {
			isPatternText[t] = true
		}
		sevSeen := map[string]map[string]bool{}
		type heldText struct {
			text string
			r    *security.ScanResult
			snap string
		}
		var heldTexts []heldText
		defer func() {
			for _, h := range heldTexts {
				if now := strings.Join(findingsKey(h.r), ",") + fmt.Sprint("|", h.r.TotalCount, h.r.CriticalCount, h.r.HighCount, h.r.MediumCount, h.r.LowCount); now != h.snap {
					res.fail("held-scan-result-modified", "a ScanSQL result kept by the caller changed when other texts were scanned", map[string]any{"text": h.text}, map[string]any{"first": h.snap, "now": now})
					break
				}
			}
		}()
		for _, t := range append(append([]string{}, texts...), patternTexts...) {
			baseR := security.NewScanner().ScanSQL(t)
			base := findingsKey(baseR)
			heldTexts = append(heldTexts, heldText{t, baseR, strings.Join(base, ",") + fmt.Sprint("|", baseR.TotalCount, baseR.CriticalCount, baseR.HighCount, baseR.MediumCount, baseR.LowCount)})
			res.count("scansql|"+t, true)
			if len(base) == 0 {
				res.stat("scansql-canonical-unflagged")
				continue
			}
			if baseR.TotalCount != len(baseR.Findings) || baseR.CriticalCount+baseR.HighCount+baseR.MediumCount+baseR.LowCount != len(baseR.Findings) {
				res.fail("scansql-counts", "the counters of a ScanSQL result do not equal its findings", map[string]any{"text": t}, nil)
			}
			for _, sv := range sevs {
				sc, _ := security.NewScannerWithSeverity(sv)
				r := sc.ScanSQL(t)
				var wantF []string
				for _, f := range base {
					if rank[strings.SplitN(f, ":", 2)[1]] >= rank[string(sv)] {
						wantF = append(wantF, f)
					}
				}
				if strings.Join(findingsKey(r), ",") != strings.Join(wantF, ",") {
					res.fail("scansql-threshold", "raising the minimum severity of the raw-text scan does not remove exactly the findings below it", map[string]any{"text": t, "threshold": sv}, map[string]any{"got": findingsKey(r), "want": wantF})
				}
				cnt := map[string]int{}
				for _, f := range r.Findings {
					cnt[string(f.Severity)]++
				}
				if r.TotalCount != len(r.Findings) || r.CriticalCount != cnt["CRITICAL"] || r.HighCount != cnt["HIGH"] || r.MediumCount != cnt["MEDIUM"] || r.LowCount != cnt["LOW"] {
					res.fail("scansql-counts", "the counters of a ScanSQL result do not equal its findings", map[string]any{"text": t, "threshold": sv}, nil)
				}
			}
			for _, f := range baseR.Findings {
				if sevSeen[string(f.Pattern)] == nil {
					sevSeen[string(f.Pattern)] = map[string]bool{}
				}
				sevSeen[string(f.Pattern)][string(f.Severity)] = true
			}
			if isPatternText[t] {
				continue
			}
			for _, rl := range relayouts {
				v := rl.f(t)
				if v == t {
					continue
				}
				got := findingsKey(security.NewScanner().ScanSQL(v))
				res.count("scansql|"+rl.name+"|"+v, true)
				if !containsMultiset(got, base) {
					res.fail("scansql-layout:"+rl.name, "a finding of the raw-text scan disappears when only blanks or letter case change", map[string]any{"text": t, "relayout": v}, map[string]any{"canonical": base, "relayout_findings": got})
				}
			}
		}
		res.Notes = append(res.Notes, "raw-text scan, (pattern = severities) met by the texts: "+severitiesNote(sevSeen))
	}
}

func severitiesNote(m map[string]map[string]bool) string {
	var ks []string
	for k, v := range m {
		var ss []string
		for s := range v {
			ss = append(ss, s)
		}
		sort.Strings(ss)
		ks = append(ks, k+"="+strings.Join(ss, "/"))
	}
	sort.Strings(ks)
	return strings.Join(ks, " ")
}

func containsMultiset(got, want []string) bool {
	m := map[string]int{}
	for _, g := range got {
		m[g]++
	}
	for _, w := range want {
		if m[w] == 0 {
			return false
		}
		m[w]--
	}
	return true
}

func mapOutsideQuotes(t string, f func(string) string) string {
	var b strings.Builder
	inq := false
	start := 0
	for i := 0; i < len(t); i++ {
		if t[i] == '\'' {
			if !inq {
				b.WriteString(f(t[start:i]))
				start = i
			} else {
				b.WriteString(t[start : i+1])
				start = i + 1
			}
			inq = !inq
		}
	}
	if inq {
		b.WriteString(t[start:])
	} else {
		b.WriteString(f(t[start:]))
	}
	return b.String()
}
func lowerOutsideQuotes(t string) string { return mapOutsideQuotes(t, strings.ToLower) }
func upperOutsideQuotes(t string) string { return mapOutsideQuotes(t, strings.ToUpper) }
