package main

import (
	"context"
	"errors"
	"fmt"
	"runtime"
	"strings"
	"sync"
	"time"

	"github.com/ajitpratap0/GoSQLX/pkg/gosqlx"
	"github.com/ajitpratap0/GoSQLX/pkg/models"
	"github.com/ajitpratap0/GoSQLX/pkg/sql/ast"
	"github.com/ajitpratap0/GoSQLX/pkg/sql/keywords"
	"github.com/ajitpratap0/GoSQLX/pkg/sql/parser"
	"github.com/ajitpratap0/GoSQLX/pkg/sql/token"
)

func init() { props["C07"] = runC07 }

// items of the long batches: statements that exercise every counter the parser keeps while it parses (negations,
// nested parentheses, sub-queries, CTEs, CASE, calls)
var longBatchItems = []string{
	"SELECT a FROM t WHERE NOT closed AND NOT (b = 1)", "SELECT a FROM t WHERE ((((a = 1))))", "SELECT (SELECT (SELECT 1))", "WITH c AS (SELECT 1) SELECT * FROM c",
	"SELECT CASE WHEN a THEN CASE WHEN b THEN 1 END END FROM t", "SELECT f(g(h(1))) FROM t", "SELECT a FROM t WHERE a IN (SELECT b FROM u WHERE NOT EXISTS (SELECT 1))",
	"SELECT a FROM t WHERE NOT NOT NOT a", "SELECT a FROM t WHERE MATCH(a) AGAINST ('x')", "SELECT a[1][2] FROM t",
}

var nearDuplicateItems = []string{
	"SELECT 'a b' FROM t", "SELECT 'a  b' FROM t", "SELECT 'a\tb' FROM t", "SELECT 'a\nb' FROM t", "SELECT 'a b'  FROM   t", "SELECT\n'a b'\nFROM\tt", "select 'a b' from t", "SELECT 'A B' FROM t",
	"SELECT \"c d\" FROM t", "SELECT \"c  d\" FROM t", "SELECT \"C d\" FROM t", "SELECT `e f` FROM t", "SELECT `e  f` FROM t",
	"SELECT a -- x\n FROM t", "SELECT a -- x\n, b FROM t", "SELECT a /* x */ FROM t", "SELECT a /*  x  */ FROM t", "SELECT a FROM t", "SELECT a  FROM t", "SELECT a FROM t WHERE b = ' '", "SELECT a FROM t WHERE b = '  '",
	"SELECT a FROM t WHERE b = ''", "SELECT $$a b$$ FROM t", "SELECT $$a  b$$ FROM t", "SELECT 1", "SELECT 1 ", "SELECT 1;", "SELECT 1 ;",
}

// loopsCase: tokens of one input with the oracle table of the real parseStatement at every position
type loopsCase struct {
	toks  []token.Token
	kinds string
	table []string
	dumps map[int]string // statement dump per start position
	ok    map[int]bool
	stop  map[int]int
	code  map[int]string
}

func codeNum(c string) int {
	n := 0
	if strings.HasPrefix(c, "E") {
		fmt.Sscanf(c[1:], "%d", &n)
		return n
	}
	switch c {
	case "unstructured":
		return 1
	case "ctx-canceled":
		return 2
	}
	return 0
}

func buildLoopsCase(toks []token.Token) *loopsCase {
	lc := &loopsCase{toks: toks, dumps: map[int]string{}, ok: map[int]bool{}, stop: map[int]int{}, code: map[int]string{}}
	var kb strings.Builder
	kindOf := func(t token.Token) byte {
		switch {
		case t.Type == models.TokenTypeSemicolon:
			return 's'
		case t.Type == models.TokenTypeEOF:
			return 'e'
		case parser.VerifIsStatementStart(t):
			return 't'
		}
		return 'o'
	}
	for _, t := range toks {
		kb.WriteByte(kindOf(t))
	}
	if len(toks) > 0 { // stale token past the end
		kb.WriteByte(kindOf(toks[len(toks)-1]))
	} else {
		kb.WriteByte('e')
	}
	lc.kinds = kb.String()
	for p := range toks {
		stmt, err, end := parser.VerifStmtAt(nil, toks, p)
		okS := "0"
		if err == nil {
			okS = "1"
			lc.ok[p] = true
			lc.dumps[p] = dumpNode(stmt)
		}
		lc.stop[p] = end
		lc.code[p] = errCode(err)
		lc.table = append(lc.table, fmt.Sprintf("%d:%s:%d:%d", p, okS, end, codeNum(errCode(err))))
	}
	return lc
}

func (lc *loopsCase) payload(strict bool) string {
	s := "0"
	if strict {
		s = "1"
	}
	return fmt.Sprintf("%d|%s|%s|%s", len(lc.toks), lc.kinds, strings.Join(lc.table, ","), s)
}

// realOutcome: canonical "ok:<dump;dump>" / "err:<code>"
func treeOutcome(tree *ast.AST, err error) string {
	if err != nil {
		return "err:" + errCode(err)
	}
	var b strings.Builder
	b.WriteString("ok:")
	for _, s := range tree.Statements {
		b.WriteString(dumpNode(s) + ";")
	}
	return b.String()
}

// modelOutcome turns a model answer "ok:1,5" / "err:2002@7" into the same canonical form using the oracle dumps
func (lc *loopsCase) modelOutcome(ans string) string {
	if strings.HasPrefix(ans, "err:") {
		c := strings.SplitN(ans[4:], "@", 2)[0]
		return "err:E" + c
	}
	if strings.HasPrefix(ans, "ok:") {
		var b strings.Builder
		b.WriteString("ok:")
		for _, f := range strings.Split(ans[3:], ",") {
			if f == "" {
				continue
			}
			var p int
			fmt.Sscanf(f, "%d", &p)
			b.WriteString(lc.dumps[p] + ";")
		}
		return b.String()
	}
	return ans
}

func parseAnswer(ans string) map[string]string {
	out := map[string]string{}
	for _, f := range strings.Fields(ans) {
		if i := strings.Index(f, "="); i > 0 {
			out[f[:i]] = f[i+1:]
		}
	}
	return out
}

func hasNonSemicolonToken(toks []token.Token) bool {
	for _, t := range toks {
		if t.Type != models.TokenTypeSemicolon && t.Type != models.TokenTypeEOF {
			return true
		}
	}
	return false
}

func c07Inputs(c *runCtx, n int) []string {
	inputs := append([]string{}, builtinCorpus...)
	inputs = append(inputs, lexicalGarbage...)
	inputs = append(inputs, "\uFEFFSELECT a FROM t", "\uFEFFSELECT FROM WHERE", "\uFEFF", "\u00a0SELECT 1", "\u200bSELECT 1", "\x00SELECT 1", "\r\nSELECT 1\r\n", "\tSELECT\t1\t", "\ufeff\ufeffSELECT 1",
		"SELECT a FROM t LIMIT 5, 10", "SELECT a FROM t LIMIT 10 OFFSET 5;", "SELECT `a` FROM `t`", ";; SELECT 1", "SELECT 1;;", "; SELECT 1 ; ; SELECT 2 ;", "SELECT 1 SELECT 2", "SELECT a FROM t; garbage here; SELECT b FROM u",
		"/* only a comment */", "-- only a comment", "/* a */ /* b */", "/* a */ -- b", "--\n--\n", "/* header */ SELECT FROM /* trailer */", "/* h */ SELECT 1 /* t */", "/* h */ SELECT 'x /* t */",
		"SELECT a FROM t WHERE; SELECT 1", "SHOW TABLES; DESCRIBE t; EXPLAIN SELECT 1; REPLACE INTO t (a) VALUES (1)", "SELECT 1; SELECT FROM; SELECT 'unterminated")
	// every word the grammar knows in place of every token of a few statements (accepted or not afterwards): what a word
	// means in a position is the same whichever entry point reads it
	{
		words := parserWords()
		bases := []string{"SELECT DISTINCT a AS x FROM t WHERE b = 1 GROUP BY a HAVING a > 2 ORDER BY a DESC LIMIT 5 OFFSET 3", "INSERT INTO t (a) VALUES (1) RETURNING a",
			"SELECT a FROM t LEFT JOIN u ON t.i = u.i UNION ALL SELECT b FROM v FETCH FIRST 2 ROWS ONLY", "UPDATE t SET a = 1 WHERE b IN (1, 2)", "CREATE TABLE t (a INT NOT NULL DEFAULT 1)",
			"SELECT f(a) OVER (PARTITION BY b ORDER BY c ROWS BETWEEN 1 PRECEDING AND CURRENT ROW) FROM t FOR UPDATE"}
		for _, b := range bases {
			pieces := strings.Fields(strings.NewReplacer("(", " ( ", ")", " ) ", ",", " , ").Replace(b))
			for j := 1; j < len(pieces); j++ {
				for _, w := range words {
					mod := append(append(append([]string{}, pieces[:j]...), w), pieces[j+1:]...)
					inputs = append(inputs, strings.Join(mod, " "))
				}
			}
		}
	}
	g := newSQLGen(c.rng.Fork())
	for i := 0; i < n; i++ {
		k := 1 + c.rng.Intn(3)
		var parts []string
		for j := 0; j < k; j++ {
			s := g.Statement()
			if c.rng.Chance(30) {
				cs := corruptions(c.rng, s, 1)
				if len(cs) > 0 {
					s = cs[0]
				}
			}
			parts = append(parts, s)
		}
		sep := []string{"; ", ";", " ;\n", ";;"}[c.rng.Intn(4)]
		in := strings.Join(parts, sep)
		if c.rng.Chance(40) {
			in += ";"
		}
		if c.rng.Chance(10) {
			in = ";" + in
		}
		inputs = append(inputs, in)
		// the same input between comments and blank lines: comments are layout for every entry point alike
		if c.rng.Chance(30) {
			pre := c.rng.Pick([]string{"/* header */ ", "/* a */ /* b */\n", "-- c\n", "--\n", "\n\n", "/**/", ""})
			post := c.rng.Pick([]string{" /* trailer */", " /**/", " -- t", "\n-- t\n", "\n/* t */\n", " /* a */ /* b */", ""})
			inputs = append(inputs, pre+in+post)
		}
	}
	return inputs
}

func runC07(c *runCtx) {
	res := c.res
	res.Rule = "inputs with at least one non-semicolon token (corpus, lexical garbage, 1-3 generated statements joined by ;, ;;, leading/trailing semicolons, 30% corrupted): every pair of the 15 entry points must accept/reject alike, return equal trees and the same error code; batch calls must equal the individual calls and fail at the first failing index; the Lean loop models (driven by the real parseStatement oracle tabulated through the verif hook at every position) must predict Parse / ParseWithPositions / ParseContext / recovery (distinct = distinct inputs with >=1 non-semicolon token)"
	drv := c.driver()
	inputs := c07Inputs(c, c.n(600, 20000))
	type ep struct {
		name string
		f    func(sql string) string
	}
	eps := []ep{
		{"gosqlx.Parse", func(s string) string { return treeOutcome(gosqlx.Parse(s)) }},
		{"gosqlx.ParseBytes", func(s string) string { return treeOutcome(gosqlx.ParseBytes([]byte(s))) }},
		{"gosqlx.ParseWithContext", func(s string) string { return treeOutcome(gosqlx.ParseWithContext(context.Background(), s)) }},
		{"gosqlx.ParseWithTimeout", func(s string) string { return treeOutcome(gosqlx.ParseWithTimeout(s, time.Minute)) }},
		{"gosqlx.ParseMultiple", func(s string) string {
			ts, err := gosqlx.ParseMultiple([]string{s})
			if err != nil {
				return "err:" + errCode(err)
			}
			return treeOutcome(ts[0], nil)
		}},
		{"parser.ParseBytes", func(s string) string { return treeOutcome(parser.ParseBytes([]byte(s))) }},
		{"parser.ParseBytesWithTokens", func(s string) string { t, _, err := parser.ParseBytesWithTokens([]byte(s)); return treeOutcome(t, err) }},
		{"parser.ParseWithDialect", func(s string) string { return treeOutcome(parser.ParseWithDialect(s, keywords.DialectPostgreSQL)) }},
		{"Parser.Parse", func(s string) string {
			toks := tokenizeFresh(s)
			if toks == nil {
				return "err:lex"
			}
			p := parser.NewParser()
			return treeOutcome(p.ParseFromModelTokens(toks))
		}},
		{"Parser.ParseContext", func(s string) string {
			toks := tokenizeFresh(s)
			if toks == nil {
				return "err:lex"
			}
			p := parser.NewParser()
			return treeOutcome(p.ParseContextFromModelTokens(context.Background(), toks))
		}},
		{"Parser.ParseWithPositions", func(s string) string {
			toks := tokenizeFresh(s)
			if toks == nil {
				return "err:lex"
			}
			p := parser.NewParser()
			return treeOutcome(p.ParseFromModelTokensWithPositions(toks))
		}},
	}
	acceptOnly := []ep{
		{"gosqlx.Validate", func(s string) string { return errCodeStr(gosqlx.Validate(s)) }},
		{"gosqlx.ValidateMultiple", func(s string) string { return errCodeStr(gosqlx.ValidateMultiple([]string{s})) }},
		{"parser.Validate", func(s string) string { return errCodeStr(parser.Validate(s)) }},
		{"gosqlx.ParseWithRecovery", func(s string) string {
			_, errs := gosqlx.ParseWithRecovery(s)
			if len(errs) == 0 {
				return "ok"
			}
			return "err"
		}},
	}
	var batchGood, batchAll []string
	for ii, in := range inputs {
		toksM := tokenizeFresh(in)
		var conv []token.Token
		if toksM != nil {
			cr, err := parser.VerifConvert(toksM)
			if err == nil {
				conv = cr.Tokens
			}
		}
		nonTrivial := toksM == nil || hasNonSemicolonToken(conv)
		if !nonTrivial {
			res.stat("excluded-semicolon-only")
			continue
		}
		res.count(in, true)
		ref := eps[0].f(in)
		if ii < 3 {
			res.sample(map[string]any{"input": truncate(in, 120), "outcome": truncate(ref, 80)})
		}
		refKind := ref
		if strings.HasPrefix(ref, "ok:") {
			res.stat("accepted")
			batchGood = append(batchGood, in)
		} else {
			res.stat("rejected:" + ref[4:])
		}
		batchAll = append(batchAll, in)
		for k, e := range eps[1:] {
			if ii%2 == 1 {
				pollutePools(ii + k) // earlier holders of the pooled objects must not change what an entry point answers
			}
			got := e.f(in)
			if got == "err:lex" && strings.HasPrefix(ref, "err:E1") {
				continue
			}
			if got != refKind {
				res.fail("entry-points-disagree:"+e.name, "two entry points disagree on the same input (accept/reject, tree or error code)",
					map[string]any{"input": in, "a": "gosqlx.Parse", "b": e.name}, map[string]any{"a": truncate(ref, 300), "b": truncate(got, 300)})
			}
		}
		for k, e := range acceptOnly {
			if ii%2 == 1 {
				pollutePools(ii + k + 3)
			}
			got := e.f(in)
			wantOK := strings.HasPrefix(ref, "ok:")
			gotOK := got == "ok"
			if wantOK != gotOK {
				res.fail("entry-points-disagree:"+e.name, "a validate-only / recovery entry point accepts what parsing rejects or vice versa",
					map[string]any{"input": in, "a": "gosqlx.Parse", "b": e.name}, map[string]any{"a": truncate(ref, 200), "b": got})
			} else if !wantOK && e.name != "gosqlx.ParseWithRecovery" && got != ref {
				res.fail("error-code-differs:"+e.name, "entry points reject the same input with different error codes",
					map[string]any{"input": in, "a": "gosqlx.Parse", "b": e.name}, map[string]any{"a": ref, "b": got})
			}
		}
		// correspondence with the Lean loop models
		if conv != nil && drv != nil && len(conv) <= 400 {
			lc := buildLoopsCase(conv)
			ans, err := drv.Ask("loops", lc.payload(false))
			if err != nil {
				res.corrFail("driver-io", err.Error(), nil, nil)
				continue
			}
			m := parseAnswer(ans)
			res.CorrCases++
			p := parser.NewParser()
			realParse := treeOutcome(p.Parse(conv))
			if lc.modelOutcome(m["parse"]) != realParse {
				res.corrFail("loops:Parse", "Lean parseLoop prediction differs from Parser.Parse", map[string]any{"input": in, "model": m["parse"]}, truncate(realParse, 200))
			}
			realCtx := treeOutcome(parser.NewParser().ParseContext(context.Background(), conv))
			if lc.modelOutcome(m["ctx"]) != realCtx {
				res.corrFail("loops:ParseContext", "Lean parseContextLoop prediction differs from Parser.ParseContext", map[string]any{"input": in, "model": m["ctx"]}, truncate(realCtx, 200))
			}
			stmts, errs := parser.NewParser().ParseWithRecovery(conv)
			var sb strings.Builder
			for _, s := range stmts {
				sb.WriteString(dumpNode(s) + ";")
			}
			var idx []string
			for _, e := range errs {
				var pe *parser.ParseError
				if errors.As(e, &pe) {
					idx = append(idx, fmt.Sprint(pe.TokenIdx))
				}
			}
			parts := strings.SplitN(m["rec"], "/", 2)
			if len(parts) == 2 {
				wantStmts := strings.TrimPrefix(lc.modelOutcome("ok:"+parts[0]), "ok:")
				if wantStmts != sb.String() || parts[1] != strings.Join(idx, ",") {
					res.corrFail("loops:Recovery", "Lean recLoop prediction differs from Parser.ParseWithRecovery",
						map[string]any{"input": in, "model": m["rec"]}, map[string]any{"real_error_idx": strings.Join(idx, ","), "real_stmts": len(stmts)})
				}
			}
			// strict mode
			ansS, _ := drv.Ask("loops", lc.payload(true))
			ms := parseAnswer(ansS)
			realStrict := treeOutcome(parser.NewParser(parser.WithStrictMode()).Parse(conv))
			if lc.modelOutcome(ms["parse"]) != realStrict {
				res.corrFail("loops:ParseStrict", "Lean parseLoop(strict) prediction differs from Parser.Parse in strict mode", map[string]any{"input": in, "model": ms["parse"]}, truncate(realStrict, 200))
			}
			realStrictCtx := treeOutcome(parser.NewParser(parser.WithStrictMode()).ParseContext(context.Background(), conv))
			if realStrictCtx != realStrict {
				res.fail("strict-mode-drift", "Parse and ParseContext disagree in strict mode", map[string]any{"input": in}, map[string]any{"Parse": truncate(realStrict, 200), "ParseContext": truncate(realStrictCtx, 200)})
			}
			// frame assumptions FA2/FA3 of the oracle, checked on every tabulated position
			for pos := range conv {
				if lc.stop[pos] < pos || (lc.ok[pos] && lc.stop[pos] <= pos) {
					res.fail("frame-assumption", "parseStatement moved backwards or succeeded without consuming a token",
						map[string]any{"input": in, "pos": pos, "stop": lc.stop[pos]}, nil)
				}
			}
		}
	}
	c07BatchLadder(c)
	c07SideBySide(c)
	// batch calls: equal to the individual calls, failing at the first failing index
	for round := 0; round < c.n(100, 2000) && len(batchAll) > 3; round++ {
		k := 2 + c.rng.Intn(5)
		if round%10 == 9 {
			k = 150 + c.rng.Intn(150) // a long batch on the one parser the batch call reuses
		}
		qs := make([]string, k)
		nearDup := round%5 == 2
		for i := range qs {
			if nearDup {
				// items that differ only where blanks, case or line ends are significant (inside literals and quoted
				// identifiers, at the end of a line comment), next to exact repeats and pure re-layouts
				qs[i] = nearDuplicateItems[c.rng.Intn(len(nearDuplicateItems))]
				continue
			}
			if k >= 150 {
				qs[i] = longBatchItems[(round+i)%len(longBatchItems)]
				continue
			}
			if c.rng.Chance(75) && len(batchGood) > 0 {
				qs[i] = batchGood[c.rng.Intn(len(batchGood))]
			} else {
				qs[i] = batchAll[c.rng.Intn(len(batchAll))]
			}
		}
		firstBad, firstCode := -1, ""
		var want []string
		for i, q := range qs {
			o := treeOutcome(gosqlx.Parse(q))
			if strings.HasPrefix(o, "err:") {
				firstBad, firstCode = i, o[4:]
				break
			}
			want = append(want, o)
		}
		res.count("batch|"+strings.Join(qs, "\x00"), true)
		ts, err := gosqlx.ParseMultiple(qs)
		verr := gosqlx.ValidateMultiple(qs)
		wit := map[string]any{"queries": qs, "first_failing_index": firstBad}
		if firstBad < 0 {
			if err != nil || verr != nil {
				res.fail("batch-differs", "a batch of individually accepted queries is rejected", wit, fmt.Sprint(err, verr))
				continue
			}
			for i := range ts {
				if treeOutcome(ts[i], nil) != want[i] {
					res.fail("batch-differs", "a batch call returns a different tree than the individual call", wit, i)
				}
			}
		} else {
			for name, e := range map[string]error{"ParseMultiple": err, "ValidateMultiple": verr} {
				if e == nil {
					res.fail("batch-differs", name+" accepts a batch containing an individually rejected query", wit, nil)
					continue
				}
				if errCode(e) != firstCode || !strings.Contains(e.Error(), fmt.Sprintf("query %d", firstBad)) {
					res.fail("batch-first-failure:"+name, "a batch call does not fail at the first failing index with that query's error code", wit,
						map[string]any{"error": truncate(e.Error(), 200), "want_code": firstCode})
				}
			}
		}
	}
}

// c07BatchLadder: batches of every size around the sizes at which an implementation might change its strategy, with two
// or three rejected items (of different error kinds) at every pair of early positions and at spread positions: the batch
// fails at the lowest failing index, with that item's error, through both batch entry points
func c07BatchLadder(c *runCtx) {
	res := c.res
	bad := []string{"SELECT 'never closed", "SELECT FROM t", "SELECT a FROM t WHERE", "INSERT INTO t VALUES (", "SELECT 1 2 3"}
	badCode := make([]string, len(bad))
	for i, b := range bad {
		badCode[i] = strings.TrimPrefix(treeOutcome(gosqlx.Parse(b)), "err:")
	}
	check := func(size int, pos []int) {
		qs := make([]string, size)
		for i := range qs {
			qs[i] = fmt.Sprintf("SELECT c%d FROM t WHERE a = %d", i%7, i)
		}
		first, firstKind := size, 0
		for n, p := range pos {
			kind := (p + n) % len(bad)
			qs[p] = bad[kind]
			if p < first {
				first, firstKind = p, kind
			}
		}
		res.count(fmt.Sprintf("batch-ladder|%d|%v", size, pos), true)
		_, perr := gosqlx.ParseMultiple(qs)
		verr := gosqlx.ValidateMultiple(qs)
		for name, e := range map[string]error{"ParseMultiple": perr, "ValidateMultiple": verr} {
			if e == nil || errCode(e) != badCode[firstKind] || !strings.Contains(e.Error(), fmt.Sprintf("query %d:", first)) {
				res.fail("batch-first-failure:"+name, "a batch call does not fail at the first failing index with that query's error code", map[string]any{"batch_size": size, "rejected_items_at": pos, "first_failing_index": first},
					map[string]any{"error": truncate(fmt.Sprint(e), 200), "want_code": badCode[firstKind]})
				return
			}
		}
	}
	for _, size := range []int{3, 8, 15, 16, 17, 24, 31, 32, 33, 48, 64, 65, 100, 128, 129, 256, 257} {
		lim := size
		if lim > 12 {
			lim = 12
		}
		for i := 0; i < lim; i++ {
			for j := i + 1; j < lim; j++ {
				check(size, []int{j, i})
			}
		}
		for k := 0; k < c.n(12, 80); k++ {
			a, b, d := c.rng.Intn(size), c.rng.Intn(size), c.rng.Intn(size)
			if a != b && b != d && a != d {
				check(size, []int{a, b, d})
			}
		}
		check(size, []int{size - 1})
		check(size, []int{size - 1, size / 2})
	}
}

func errCodeStr(err error) string {
	if err == nil {
		return "ok"
	}
	return "err:" + errCode(err)
}

// c07SideBySide: the entry points agree also when several clients use them at the same time on different texts (each call
// with its own instances, as documented): every answer is the one gosqlx.Parse gives for that text on its own
func c07SideBySide(c *runCtx) {
	res := c.res
	texts := []string{"SELECT a FROM t WHERE a = 1", "SELECT a FROM t WHERE a = = 1", "INSERT INTO t (a, b) VALUES (1, 2), (3, 4)", "SELECT FROM t", "UPDATE t SET a = 1 WHERE b IN (SELECT c FROM u)",
		"SELECT x, y, z FROM u JOIN v ON u.i = v.i ORDER BY x DESC LIMIT 3", "DELETE FROM t WHERE", "WITH c AS (SELECT 1) SELECT * FROM c", "SELECT 'open", "SELECT CASE WHEN a THEN 1 ELSE 2 END FROM t GROUP BY a HAVING COUNT(*) > 1",
		"SELECT 1", "SELECT a, b FROM t; SELECT c FROM u", "CREATE TABLE t (a INT, b TEXT)", "SELECT (1, 2", "SELECT f(g(h(1))) FROM t WHERE x BETWEEN 1 AND 2"}
	g := newSQLGen(c.rng.Fork())
	for i := 0; i < 25; i++ {
		texts = append(texts, g.Statement())
	}
	want := make([]string, len(texts))
	for i, t := range texts {
		want[i] = treeOutcome(gosqlx.Parse(t))
	}
	entries := []struct {
		name string
		f    func(s string) string
	}{
		{"gosqlx.ParseWithContext", func(s string) string { return treeOutcome(gosqlx.ParseWithContext(context.Background(), s)) }},
		{"gosqlx.ParseWithTimeout", func(s string) string { return treeOutcome(gosqlx.ParseWithTimeout(s, time.Minute)) }},
		{"gosqlx.Parse", func(s string) string { return treeOutcome(gosqlx.Parse(s)) }},
		{"gosqlx.ParseBytes", func(s string) string { return treeOutcome(gosqlx.ParseBytes([]byte(s))) }},
		{"Parser.ParseContextFromModelTokens", func(s string) string {
			toks := tokenizeFresh(s)
			if toks == nil {
				return "err:lex"
			}
			p := parser.GetParser()
			defer parser.PutParser(p)
			return treeOutcome(p.ParseContextFromModelTokens(context.Background(), toks))
		}},
		{"Parser.ParseFromModelTokens", func(s string) string {
			toks := tokenizeFresh(s)
			if toks == nil {
				return "err:lex"
			}
			p := parser.GetParser()
			defer parser.PutParser(p)
			return treeOutcome(p.ParseFromModelTokens(toks))
		}},
		{"parser.ParseWithDialect", func(s string) string { return treeOutcome(parser.ParseWithDialect(s, keywords.DialectPostgreSQL)) }},
	}
	prev := runtime.GOMAXPROCS(4)
	defer runtime.GOMAXPROCS(prev)
	for _, e := range entries {
		var wg sync.WaitGroup
		var mu sync.Mutex
		bad := ""
		for w := 0; w < 8; w++ {
			w := w
			wg.Add(1)
			go func() {
				defer wg.Done()
				defer func() {
					if r := recover(); r != nil {
						mu.Lock()
						bad = fmt.Sprint("panic: ", r)
						mu.Unlock()
					}
				}()
				for r := 0; r < c.n(250, 2500); r++ {
					i := (w*7 + r*3) % len(texts)
					got := e.f(texts[i])
					ok := got == want[i]
					if !ok && strings.HasPrefix(got, "err:") && strings.HasPrefix(want[i], "err:") && (got == "err:lex" || strings.HasPrefix(want[i], "err:E1")) {
						ok = true // a lexical rejection reported by the helper without its code
					}
					if !ok {
						mu.Lock()
						bad = fmt.Sprintf("%q: got %s, alone %s", truncate(texts[i], 120), truncate(got, 160), truncate(want[i], 160))
						mu.Unlock()
						return
					}
				}
			}()
		}
		wg.Wait()
		res.count("side-by-side|"+e.name, true)
		if bad != "" {
			res.fail("entry-points-disagree-side-by-side:"+e.name, "used by several clients at the same time on different texts, an entry point answers differently from gosqlx.Parse on the same text alone", map[string]any{"entry": e.name, "clients": 8}, map[string]any{"what": bad})
		}
	}
}
