package main

import (
	"fmt"
	"os"
)

const verifDir = "/verif"

func usage() {
	fmt.Fprintln(os.Stderr, "usage: vx extract | vx run <Cxx> [--tier quick|thorough] [--seed N] | vx child <op> ...")
	os.Exit(2)
}

func main() {
	if len(os.Args) < 2 {
		usage()
	}
	switch os.Args[1] {
	case "extract":
		if err := cmdExtract(); err != nil {
			fmt.Fprintln(os.Stderr, "extract:", err)
			os.Exit(3)
		}
	case "run":
		os.Exit(cmdRun(os.Args[2:]))
	case "child":
		os.Exit(cmdChild(os.Args[2:]))
	case "gen":
		// vx gen <n> <seed>: statements of the generators, one per line (tooling for differential probes)
		cmdGen(os.Args[2:])
	default:
		usage()
	}
}

func cmdExtract() error {
	l, err := loadRepo("./pkg/...", "./cmd/gosqlx/...")
	if err != nil {
		return err
	}
	genDir := verifDir + "/lean/GoSQLXModel/Gen"
	jsonDir := verifDir + "/gen"
	at, err := extractAst(l)
	if err != nil {
		return err
	}
	if err := writeJSON(jsonDir+"/ast_tables.json", at); err != nil {
		return err
	}
	if err := emitAstLean(at, genDir); err != nil {
		return err
	}
	return extractMore(l, genDir, jsonDir)
}
