package main

import (
	"bufio"
	"crypto/sha256"
	"encoding/hex"
	"encoding/json"
	"flag"
	"fmt"
	"io"
	"os"
	"os/exec"
	"sort"
	"strings"
	"time"
)

// Failure is one property failure observed on the real implementation (oracle), or one
// disagreement between the Lean model and the implementation (correspondence).
type Failure struct {
	Key     string `json:"key"`  // canonical descriptor: names the defect site and shape, not the input
	What    string `json:"what"` // human readable
	Witness any    `json:"witness"`
	Detail  any    `json:"detail,omitempty"`
}

type Result struct {
	Property    string         `json:"property"`
	Tier        string         `json:"tier"`
	Seed        int64          `json:"seed"`
	Evaluations int            `json:"evaluations"`
	Distinct    int            `json:"distinct_nontrivial"`
	Rule        string         `json:"rule"`
	Samples     []any          `json:"samples"`
	CorrCases   int            `json:"traces_validated_against_impl"`
	CorrFail    []Failure      `json:"correspondence_mismatches"`
	Failures    []Failure      `json:"failures"`
	Stats       map[string]int `json:"stats"`
	Notes       []string       `json:"notes"`
	Exhaustive  bool           `json:"exhaustive"`
	WallS       float64        `json:"wall_s"`

	seen     map[[32]byte]bool
	lastCase string // the case counted last: what a panic that escapes into the harness was working on
}

func (r *Result) stat(k string) { r.Stats[k]++ }
func (r *Result) statN(k string, n int) {
	r.Stats[k] += n
}

// count registers one evaluated case; `canon` is its canonical form (used for the distinct count)
// and `nontrivial` the property-specific rule.
func (r *Result) count(canon string, nontrivial bool) {
	r.Evaluations++
	r.lastCase = canon
	if !nontrivial {
		return
	}
	h := sha256.Sum256([]byte(canon))
	if !r.seen[h] {
		r.seen[h] = true
		r.Distinct++
	}
}

func (r *Result) sample(v any) {
	if len(r.Samples) < 8 {
		r.Samples = append(r.Samples, v)
	}
}

const maxFailuresKept = 2000

func (r *Result) fail(key, what string, witness, detail any) {
	for _, f := range r.Failures {
		if f.Key == key {
			r.stat("fail_dup:" + key)
			return
		}
	}
	if len(r.Failures) < maxFailuresKept {
		r.Failures = append(r.Failures, Failure{key, what, witness, detail})
	} else {
		r.stat("failures_dropped")
	}
}

func (r *Result) corrFail(key, what string, witness, detail any) {
	for _, f := range r.CorrFail {
		if f.Key == key {
			r.stat("corr_dup:" + key)
			return
		}
	}
	if len(r.CorrFail) < maxFailuresKept {
		r.CorrFail = append(r.CorrFail, Failure{key, what, witness, detail})
	} else {
		r.stat("failures_dropped")
	}
}

type runCtx struct {
	res   *Result
	tier  string
	seed  int64
	rng   *Rng
	known []KnownFinding
	drv   *Driver
	start time.Time
	quick bool
}

// n picks a budget by tier
func (c *runCtx) n(quick, thorough int) int {
	if c.quick {
		return quick
	}
	return thorough
}

var props = map[string]func(*runCtx){}

func cmdRun(args []string) int {
	if len(args) < 1 {
		usage()
	}
	id := args[0]
	fs := flag.NewFlagSet("run", flag.ExitOnError)
	tier := fs.String("tier", "quick", "quick|thorough")
	seed := fs.Int64("seed", 1, "PRNG seed")
	replay := fs.String("replay", "", "replay file")
	out := fs.String("out", "", "result file")
	_ = fs.Parse(args[1:])
	fn := props[id]
	if fn == nil {
		fmt.Fprintln(os.Stderr, "unknown property", id)
		return 2
	}
	known, err := loadKnown()
	if err != nil {
		fmt.Fprintln(os.Stderr, err)
		return 3
	}
	res := &Result{Property: id, Tier: *tier, Seed: *seed, Stats: map[string]int{}, seen: map[[32]byte]bool{},
		Samples: []any{}, CorrFail: []Failure{}, Failures: []Failure{}, Notes: []string{}}
	c := &runCtx{res: res, tier: *tier, seed: *seed, rng: NewRng(uint64(*seed)), known: known, start: time.Now(), quick: *tier != "thorough"}
	if *replay != "" {
		res.Notes = append(res.Notes, "replay of "+*replay)
		replayFile = *replay
	}
	func() {
		defer func() {
			if r := recover(); r != nil {
				res.fail("panic:in-process", "a panic escaped an entry point called in-process by the harness", map[string]any{"panic": fmt.Sprint(r), "case_counted_last": truncate(res.lastCase, 1500), "at": firstRepoFrame()}, nil)
			}
		}()
		fn(c)
	}()
	for _, pp := range pollutionPanics {
		res.fail("panic:pooled-history", "a panic escaped an entry point while an earlier holder's use of the pools was replayed", map[string]any{"panic": pp}, nil)
	}
	if c.drv != nil {
		c.drv.Close()
	}
	res.WallS = time.Since(c.start).Seconds()
	path := *out
	if path == "" {
		path = fmt.Sprintf("%s/.work/%s.result.json", verifDir, id)
	}
	_ = os.MkdirAll(verifDir+"/.work", 0o755)
	b, _ := json.MarshalIndent(res, "", " ")
	if err := os.WriteFile(path, b, 0o644); err != nil {
		fmt.Fprintln(os.Stderr, err)
		return 3
	}
	return 0
}

var replayFile string

// ---------------------------------------------------------------------------------------------
// PRNG: SplitMix64, every random choice of a run derives from VERIF_SEED

type Rng struct{ s uint64 }

func NewRng(seed uint64) *Rng { return &Rng{s: seed*0x9E3779B97F4A7C15 + 0x1234567} }
func (r *Rng) U64() uint64 {
	r.s += 0x9E3779B97F4A7C15
	z := r.s
	z = (z ^ (z >> 30)) * 0xBF58476D1CE4E5B9
	z = (z ^ (z >> 27)) * 0x94D049BB133111EB
	return z ^ (z >> 31)
}
func (r *Rng) Intn(n int) int {
	if n <= 0 {
		return 0
	}
	return int(r.U64() % uint64(n))
}
func (r *Rng) Bool() bool              { return r.U64()&1 == 1 }
func (r *Rng) Chance(p int) bool       { return r.Intn(100) < p }
func (r *Rng) Pick(xs []string) string { return xs[r.Intn(len(xs))] }
func (r *Rng) Fork() *Rng              { return &Rng{s: r.U64()} }

// ---------------------------------------------------------------------------------------------
// Lean driver client (line protocol: "op\tpayload" -> one line)

type Driver struct {
	cmd *exec.Cmd
	in  io.WriteCloser
	out *bufio.Reader
}

const driverPath = verifDir + "/lean/.lake/build/bin/driver"

func (c *runCtx) driver() *Driver {
	if c.drv != nil {
		return c.drv
	}
	cmd := exec.Command(driverPath)
	in, _ := cmd.StdinPipe()
	outp, _ := cmd.StdoutPipe()
	cmd.Stderr = os.Stderr
	if err := cmd.Start(); err != nil {
		c.res.corrFail("driver-missing", "Lean driver could not be started: "+err.Error(), nil, nil)
		return nil
	}
	c.drv = &Driver{cmd: cmd, in: in, out: bufio.NewReaderSize(outp, 1<<20)}
	return c.drv
}

func (d *Driver) Ask(op, payload string) (string, error) {
	if strings.ContainsAny(payload, "\n\r") || strings.ContainsAny(op, "\t\n") {
		return "", fmt.Errorf("payload must be single-line")
	}
	if _, err := io.WriteString(d.in, op+"\t"+payload+"\n"); err != nil {
		return "", err
	}
	line, err := d.out.ReadString('\n')
	if err != nil {
		return "", err
	}
	return strings.TrimRight(line, "\n"), nil
}

func (d *Driver) Close() {
	d.in.Close()
	done := make(chan struct{})
	go func() { d.cmd.Wait(); close(done) }()
	select {
	case <-done:
	case <-time.After(5 * time.Second):
		d.cmd.Process.Kill()
	}
}

func hexOf(b []byte) string { return hex.EncodeToString(b) }

func sortedStrings(xs []string) []string {
	ys := append([]string(nil), xs...)
	sort.Strings(ys)
	return ys
}

func cmdChild(args []string) int { return childMain(args) }
