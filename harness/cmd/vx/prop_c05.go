package main

import (
	"context"
	"encoding/hex"
	"errors"
	"fmt"
	"runtime"
	"strings"
	"sync"

	goerrors "github.com/ajitpratap0/GoSQLX/pkg/errors"
	"github.com/ajitpratap0/GoSQLX/pkg/gosqlx"
	"github.com/ajitpratap0/GoSQLX/pkg/models"
	"github.com/ajitpratap0/GoSQLX/pkg/sql/parser"
	"github.com/ajitpratap0/GoSQLX/pkg/sql/tokenizer"
)

func init() { props["C05"] = runC05 }

// refLoc: independent offset -> (line, column): 1-based, column = bytes since the line start + 1.
func refLoc(input string, off int) (int, int) {
	line, col := 1, 1
	for i := 0; i < off && i < len(input); i++ {
		if input[i] == '\n' {
			line++
			col = 1
		} else {
			col++
		}
	}
	return line, col
}

// asciiTabFreeLine: is the line containing offset `off` (up to off) free of tabs and non-ASCII bytes?
func asciiTabFreeLine(input string, off int) bool {
	for i := off - 1; i >= 0 && input[i] != '\n'; i-- {
		if input[i] == '\t' || input[i] >= 0x80 {
			return false
		}
	}
	return true
}

func runC05(c *runCtx) {
	res := c.res
	res.Rule = "(1) reference lexeme sequences with arbitrary line structure (blank lines, CRLF, tabs, line and block comments, multi-line strings and comments, non-ASCII): the generator records the byte offset of every lexeme and comment; each token's Start/End and each comment's span must be the (line, column) of its own first byte / the byte after its last (exact equality on ASCII tab-free lines, line number always), 1-based, non-decreasing, inside the input, End never after the next Start; (2) tokenizer errors on corrupted input carry a location inside the input; (3) parser errors on single-token corruptions of accepted statements (an inserted `]`) are located at that token; (4) correspondence with the Lean model (driver op lex, which carries line.column of every token, comment and error) on all inputs (distinct = distinct inputs)"
	drv := c.driver()
	g := &lexGen{r: c.rng.Fork()}
	corrLex := func(text string) {
		if drv == nil || len(text) > 100000 {
			return
		}
		real, _, _, _ := lexReal([]byte(text))
		ans, err := drv.Ask("lex", hex.EncodeToString([]byte(text)))
		if err == nil {
			res.CorrCases++
			if !sameLex(ans, real) {
				res.corrFail("lex-model", "Lean tokenizer differs from Tokenizer.Tokenize (positions included)", map[string]any{"input": text}, map[string]any{"model": ans, "real": real})
			}
		}
	}
	seps := []string{" ", "\n", "\n\n", "\r\n", "\t", "  \n  ", " -- c\n", "\n-- x y\n\n", "/* c */", " /* multi\nline\n*/ ", "\n\t", " \n",
		strings.Repeat("\n", 9), strings.Repeat("\n", 17), strings.Repeat(" \n", 12), strings.Repeat("\r\n", 10), "/* a\n" + strings.Repeat("\n", 11) + "b */\n", strings.Repeat("-- c\n", 10)}
	for i := 0; i < c.n(3000, 120000); i++ {
		// build the text, remembering where each lexeme and comment starts and ends
		type span struct {
			s, e    int
			comment bool
		}
		var sb strings.Builder
		var spans []span
		n := 1 + g.r.Intn(8)
		var prev *lexeme
		if g.r.Intn(3) == 0 {
			sb.WriteString(g.r.Pick([]string{"\n", "  ", "-- lead\n", "/* lead */\n", "\n\n\t"}))
			if strings.Contains(sb.String(), "lead") {
				spans = append(spans, span{strings.Index(sb.String(), "-"), 0, true})
			}
		}
		// (leading comment spans are recomputed below from the text; keep it simple: drop them)
		spans = nil
		for k := 0; k < n; k++ {
			l := g.lexeme()
			if l.kind == "colon-name" {
				l = lexeme{"x", "word", "x", "word"}
			}
			if prev != nil {
				sep := g.r.Pick(seps)
				if prev.kind == "word" && l.kind == "word" {
					up := strings.ToUpper(prev.text)
					for _, cs := range refCompoundFirst {
						if up == cs {
							sep = " /* c */ "
						}
					}
				}
				sb.WriteString(sep)
			}
			spans = append(spans, span{sb.Len(), sb.Len() + len(l.text), false})
			sb.WriteString(l.text)
			ll := l
			prev = &ll
		}
		if g.r.Intn(4) == 0 {
			sb.WriteString(g.r.Pick([]string{"\n", " -- tail", " /* tail */", "\n\n"}))
		}
		text := sb.String()
		res.count(text, true)
		corrLex(text)
		_, toks, cms, err := lexReal([]byte(text))
		if err != nil {
			res.stat("rejected")
			continue
		}
		wit := map[string]any{"input": text}
		if len(toks) != len(spans)+1 {
			res.stat("token-count-differs") // C04's business
			continue
		}
		check := func(what string, loc models.Location, off int) {
			wl, wc := refLoc(text, off)
			if loc.Line != wl {
				res.fail("line-wrong:"+what, "an element is located on the wrong line", wit, map[string]any{"offset": off, "got": fmt.Sprintf("%d:%d", loc.Line, loc.Column), "want": fmt.Sprintf("%d:%d", wl, wc)})
			} else if asciiTabFreeLine(text, off) && loc.Column != wc {
				res.fail("column-wrong:"+what, "an element on an ASCII tab-free line is located in the wrong column", wit, map[string]any{"offset": off, "got": fmt.Sprintf("%d:%d", loc.Line, loc.Column), "want": fmt.Sprintf("%d:%d", wl, wc)})
			}
			if loc.Line < 1 || loc.Column < 1 {
				res.fail("not-one-based:"+what, "a location is not 1-based", wit, map[string]any{"got": fmt.Sprintf("%d:%d", loc.Line, loc.Column)})
			}
		}
		for k, sp := range spans {
			check("token-start", toks[k].Start, sp.s)
			check("token-end", toks[k].End, sp.e)
		}
		check("eof", toks[len(toks)-1].Start, len(text))
		less := func(a, b models.Location) bool { return a.Line < b.Line || (a.Line == b.Line && a.Column <= b.Column) }
		for k := 0; k+1 < len(toks); k++ {
			if !less(toks[k].Start, toks[k].End) || !less(toks[k].End, toks[k+1].Start) {
				res.fail("order", "token locations decrease along the stream, or an end lies after the next start", wit, map[string]any{"index": k})
			}
		}
		// comments: find them in the text in order
		from := 0
		for _, cm := range cms {
			idx := strings.Index(text[from:], cm.Text)
			if idx < 0 {
				res.fail("comment-text", "a captured comment is not a piece of the input", wit, map[string]any{"comment": cm.Text})
				break
			}
			check("comment-start", cm.Start, from+idx)
			from += idx + len(cm.Text)
			if !less(cm.Start, cm.End) {
				res.fail("order", "a comment ends before it starts", wit, nil)
			}
		}
	}
	// (2) tokenizer errors
	rb := c.rng.Fork()
	sg := newSQLGen(c.rng.Fork())
	for i := 0; i < c.n(600, 20000); i++ {
		sql := sg.Statement()
		if rb.Bool() {
			sql = strings.ReplaceAll(sql, " ", g.r.Pick([]string{"\n", " \n ", "\t", "  "}))
		}
		for _, bad := range []string{"'unterminated", "\"unterminated", "1e", "1.", "\\", "'a\\q'", "^", "`x", "\"two\nlines\"", "$$never closed", "$t$ never\nclosed", "'two\nlines",
			"'it''s", "'a''b''c", "'a\\'b", "'a\\\\", "'\\n x", "'é", "'名前 x", "'tab\there", "\"a\"\"b", "\"é", "`a``b", "`é", "'a''\nb", "'x /* y", "'x -- y"} {
			words := strings.Fields(sql)
			if len(words) < 2 {
				continue
			}
			j := rb.Intn(len(words))
			if pre := strings.Join(words[:j], " "); strings.Count(pre, "'")%2 == 1 || strings.Count(pre, "\"")%2 == 1 || strings.Count(pre, "`")%2 == 1 || strings.Contains(pre, "/*") || strings.Contains(pre, "--") {
				continue
			}
			text := strings.Join(words[:j], " ") + "\n " + bad
			if bad[0] != '\'' && bad[0] != '"' && bad[0] != '`' && bad[0] != '$' {
				text += " " + strings.Join(words[j:], " ")
			}
			res.count(text, true)
			corrLex(text)
			_, _, _, err := lexReal([]byte(text))
			if err == nil {
				continue
			}
			e, ok := err.(*goerrors.Error)
			if !ok {
				continue
			}
			lines := strings.Split(text, "\n")
			if e.Location.Line < 1 || e.Location.Line > len(lines) || e.Location.Column < 1 || e.Location.Column > len(lines[e.Location.Line-1])+1 {
				res.fail("lex-error-outside", "a tokenizer error is located outside the input", map[string]any{"input": text}, map[string]any{"got": fmt.Sprintf("%d:%d", e.Location.Line, e.Location.Column), "code": string(e.Code)})
				continue
			}
			// the offending piece starts on the last line, at column 2
			wl := len(lines) - strings.Count(bad, "\n")
			if strings.HasPrefix(bad, "1") || bad == "'a\\q'" {
				// located after the digits / at the escape: same line is what is asserted
				if e.Location.Line != wl {
					res.fail("lex-error-line", "a tokenizer error is located on another line than the offending text", map[string]any{"input": text}, map[string]any{"got": e.Location.Line, "want": wl})
				}
			} else if e.Location.Line != wl || e.Location.Column != 2 {
				res.fail("lex-error-position", "a tokenizer error is not located at the offending character", map[string]any{"input": text}, map[string]any{"got": fmt.Sprintf("%d:%d", e.Location.Line, e.Location.Column), "want": fmt.Sprintf("%d:2", wl), "code": string(e.Code)})
			}
		}
	}
	type heldCase struct {
		text  string
		mtoks []models.TokenWithSpan
		ref   string // code and location of the error of a parse on its own
	}
	var held []heldCase
	// (3) parser errors at the offending token
	for i := 0; i < c.n(600, 20000); i++ {
		sg.Plain = true
		sql := sg.Statement()
		if _, err := gosqlx.Parse(sql); err != nil {
			continue
		}
		words := strings.Fields(sql)
		if len(words) < 3 {
			continue
		}
		j := 1 + rb.Intn(len(words)-1)
		sep := g.r.Pick([]string{" ", "\n", "\n\n  "})
		text := strings.Join(words[:j], " ") + sep + "]" + " " + strings.Join(words[j:], " ")
		res.count(text, true)
		tk, _ := tokenizer.New()
		mtoks, terr := tk.Tokenize([]byte(text))
		if terr != nil {
			continue
		}
		pp := parser.NewParser()
		_, err := pp.ParseFromModelTokensWithPositions(mtoks)
		pp.Release()
		if err == nil {
			res.stat("corruption-accepted")
			continue
		}
		if len(held) < 400 {
			held = append(held, heldCase{text, mtoks, c05ErrKey(err)})
		}
		var e *goerrors.Error
		for x := err; x != nil; {
			if ee, ok := x.(*goerrors.Error); ok {
				e = ee
				break
			}
			u, ok := x.(interface{ Unwrap() error })
			if !ok {
				break
			}
			x = u.Unwrap()
		}
		if e == nil {
			res.stat("parse-error-unstructured")
			continue
		}
		off := len(strings.Join(words[:j], " ")) + len(sep)
		wl, wc := refLoc(text, off)
		if e.Location.Line == 0 && e.Location.Column == 0 {
			res.fail("parse-error-unlocated:"+string(e.Code), "a syntax error of the position-tracking entry point carries no location", map[string]any{"input": text}, map[string]any{"code": string(e.Code), "message": e.Message})
			continue
		}
		// the parser stops at the inserted token or, when it had to give up a construct, at a token before it:
		// the location must be the start of a token, and never after the inserted one
		isStart := false
		for _, t := range mtoks {
			if t.Start.Line == e.Location.Line && t.Start.Column == e.Location.Column {
				isStart = true
			}
		}
		after := e.Location.Line > wl || (e.Location.Line == wl && e.Location.Column > wc)
		if !isStart || after {
			res.fail("parse-error-position", "a syntax error is located at no token start, or after the offending token", map[string]any{"input": text}, map[string]any{"got": fmt.Sprintf("%d:%d", e.Location.Line, e.Location.Column), "offending": fmt.Sprintf("%d:%d", wl, wc), "code": string(e.Code), "message": e.Message})
		} else if e.Location.Line == wl && e.Location.Column == wc {
			res.stat("parse-error-at-inserted-token")
		} else {
			res.stat("parse-error-at-earlier-token")
		}
	}
	// (1b) large inputs — larger than any chunk or buffer an implementation might process at a time (70 KiB, 200 KiB,
	// 1.1 MiB; lines of every length; blank and comment lines) — through Tokenize and TokenizeContext, fresh and pooled:
	// every token's reported (line, column) is where its text stands, starts never move backwards, the entry points agree,
	// and an unterminated literal at the very end is located at its quote
	for _, size := range []int{70 << 10, 200 << 10, 1100 << 10} {
		var sb strings.Builder
		for k := 0; sb.Len() < size; k++ {
			switch k % 7 {
			case 3:
				sb.WriteString("\n")
			case 5:
				fmt.Fprintf(&sb, "  -- note %d\n", k)
			default:
				fmt.Fprintf(&sb, "%sSELECT c%d, d%d FROM t%d WHERE x = %d;\n", strings.Repeat(" ", k%11), k, k%13, k%5, k*7)
			}
		}
		script := sb.String()
		lineStart := []int{0}
		for i := 0; i < len(script); i++ {
			if script[i] == '\n' {
				lineStart = append(lineStart, i+1)
			}
		}
		type run struct {
			name string
			f    func(b []byte) ([]models.TokenWithSpan, error)
		}
		runs := []run{
			{"Tokenize", func(b []byte) ([]models.TokenWithSpan, error) { t, _ := tokenizer.New(); return t.Tokenize(b) }},
			{"TokenizeContext", func(b []byte) ([]models.TokenWithSpan, error) {
				t, _ := tokenizer.New()
				return t.TokenizeContext(context.Background(), b)
			}},
			{"pooled TokenizeContext", func(b []byte) ([]models.TokenWithSpan, error) {
				t := tokenizer.GetTokenizer()
				defer tokenizer.PutTokenizer(t)
				return t.TokenizeContext(context.Background(), b)
			}},
		}
		var ref string
		for _, rn := range runs {
			toks, err := rn.f([]byte(script))
			res.count(fmt.Sprintf("large|%d|%s", size, rn.name), true)
			wit := map[string]any{"entry": rn.name, "bytes": len(script), "lines": len(lineStart)}
			if err != nil {
				res.fail("large-input-rejected:"+rn.name, "a large multi-line script is rejected", wit, err.Error())
				continue
			}
			var sig strings.Builder
			prevL, prevC := 0, 0
			for ti, tk := range toks {
				l, cc := tk.Start.Line, tk.Start.Column
				fmt.Fprintf(&sig, "%d:%d ", l, cc)
				if tk.Token.Value == "" {
					continue
				}
				ok := l >= 1 && l <= len(lineStart)
				if ok {
					off := lineStart[l-1] + cc - 1
					ok = cc >= 1 && off+len(tk.Token.Value) <= len(script) && strings.EqualFold(script[off:off+len(tk.Token.Value)], tk.Token.Value)
				}
				if !ok || l < prevL || (l == prevL && cc < prevC) {
					res.fail("large-input-token-position:"+rn.name, "in a large multi-line script a token is reported where its text does not stand (or before its predecessor)", wit,
						map[string]any{"token_index": ti, "value": tk.Token.Value, "reported": fmt.Sprintf("%d:%d", l, cc), "previous": fmt.Sprintf("%d:%d", prevL, prevC)})
					break
				}
				prevL, prevC = l, cc
			}
			if ref == "" {
				ref = sig.String()
			} else if sig.String() != ref {
				res.fail("large-input-entry-points-differ", "Tokenize and "+rn.name+" report different positions for the same large script", wit, nil)
			}
			// an unterminated literal at the very end
			bad := script + "   SELECT 'open"
			_, berr := rn.f([]byte(bad))
			var se *goerrors.Error
			if errors.As(berr, &se) {
				if se.Location.Line != len(lineStart) || se.Location.Column != 11 {
					res.fail("large-input-error-position:"+rn.name, "the unterminated literal at the end of a large script is not located at its quote", wit,
						map[string]any{"reported": fmt.Sprintf("%d:%d", se.Location.Line, se.Location.Column), "want": fmt.Sprintf("%d:11", len(lineStart))})
				}
			}
		}
	}
	// (3b) recovery mode: every error of a script is located at the offending token of its own statement — the error's own
	// line / column (ParseError), the structured error it wraps, and the token it names by index agree
	{
		goods := []string{"SELECT a FROM t", "DELETE FROM t WHERE a = 1", "SELECT COUNT(*) FROM t GROUP BY a"}
		bads := []struct {
			text string
			off  int // byte offset of the offending token inside text
		}{{"FOO bar", 0}, {") x", 0}, {"42", 0}, {"x y z", 0}, {"= 1", 0}, {"SELECT a FROM WHERE b = 1", 14}, {"SELECT a, , b FROM t", 10}, {"INSERT INTO VALUES (1)", 12},
			{"SELECT a FROM t WHERE (b = 1", -1}, {"UPDATE SET a = 1", 7}, {"SELECT * FROM t WHERE a IN (1, 2", -1}}
		for r := 0; r < c.n(300, 6000); r++ {
			k := 2 + rb.Intn(4)
			var lines []string
			type exp struct{ line, col int }
			var want []exp
			for i := 0; i < k; i++ {
				pad := strings.Repeat(" ", rb.Intn(5))
				if rb.Chance(45) {
					b := bads[rb.Intn(len(bads))]
					lines = append(lines, pad+b.text+" ;")
					if b.off >= 0 {
						want = append(want, exp{len(lines), len(pad) + b.off + 1})
					} else {
						want = append(want, exp{len(lines), -1})
					}
				} else {
					lines = append(lines, pad+goods[rb.Intn(len(goods))]+" ;")
				}
				if rb.Chance(30) {
					lines = append(lines, "-- a comment line", "")
				}
			}
			script := strings.Join(lines, "\n")
			res.count("recovery-loc|"+script, true)
			_, errs := gosqlx.ParseWithRecovery(script)
			wit := map[string]any{"script": script}
			if len(errs) != len(want) {
				res.stat("recovery-loc-error-count-differs")
				continue
			}
			for i, e := range errs {
				var pe *parser.ParseError
				var se *goerrors.Error
				hasPE, hasSE := errors.As(e, &pe), errors.As(e, &se)
				if hasPE && pe.Line > 0 {
					if pe.Line != want[i].line || (want[i].col > 0 && pe.Column != want[i].col) {
						res.fail("recovery-error-position", "a recovery error's own line / column is not the start of the offending token of its statement", wit,
							map[string]any{"error_index": i, "got": fmt.Sprintf("%d:%d", pe.Line, pe.Column), "want_line": want[i].line, "want_column": want[i].col})
						break
					}
					if hasSE && se.Location.Line > 0 && (se.Location.Line != pe.Line || se.Location.Column != pe.Column) {
						res.fail("recovery-error-two-locations", "a recovery error and the structured error it wraps name different places", wit,
							map[string]any{"error_index": i, "parse_error": fmt.Sprintf("%d:%d", pe.Line, pe.Column), "wrapped": fmt.Sprintf("%d:%d", se.Location.Line, se.Location.Column)})
						break
					}
				}
				if hasSE && se.Location.Line > 0 && (se.Location.Line != want[i].line || (want[i].col > 0 && se.Location.Column != want[i].col)) {
					res.fail("recovery-error-position", "the structured error of a recovery error is not located at the offending token of its statement", wit,
						map[string]any{"error_index": i, "got": fmt.Sprintf("%d:%d", se.Location.Line, se.Location.Column), "want_line": want[i].line, "want_column": want[i].col})
					break
				}
			}
		}
	}
	// (4) the location does not depend on what else is converted or parsed meanwhile: a conversion result that is held
	// while other inputs are converted still yields the error of its own text; parsers used side by side (one per
	// goroutine, as documented) report the locations of their own texts
	for i := range held {
		a, b := held[i], held[(i+1+rb.Intn(len(held)))%len(held)]
		crA, err := parser.VerifConvert(a.mtoks)
		if err != nil {
			continue
		}
		before := fmt.Sprint(crA.PositionMapping) + "|" + fmt.Sprint(len(crA.Tokens))
		for k := 0; k <= i%3; k++ {
			if _, err := parser.VerifConvert(b.mtoks); err != nil {
				break
			}
		}
		res.count("held|"+a.text+"|"+b.text, true)
		wit := map[string]any{"history": []string{"convert A", "convert B", "ParseWithPositions(A)"}, "A": a.text, "B": b.text}
		if after := fmt.Sprint(crA.PositionMapping) + "|" + fmt.Sprint(len(crA.Tokens)); after != before {
			res.fail("held-conversion-modified", "the position mapping of a held conversion result changed when another input was converted", wit, nil)
		}
		pp := parser.NewParser()
		_, perr := pp.ParseWithPositions(crA)
		pp.Release()
		if got := c05ErrKey(perr); got != a.ref {
			res.fail("error-location-after-other-conversion", "the error of a text converted before another conversion is not the error of that text parsed on its own", wit, map[string]any{"got": got, "want": a.ref})
		}
	}
	if len(held) >= 8 {
		prev := runtime.GOMAXPROCS(4)
		var wg sync.WaitGroup
		var mu sync.Mutex
		bad := map[string]string{}
		for w := 0; w < 8; w++ {
			w := w
			wg.Add(1)
			go func() {
				defer wg.Done()
				for r := 0; r < c.n(300, 3000); r++ {
					hc := held[(w*37+r)%len(held)]
					pp := parser.GetParser()
					_, err := pp.ParseFromModelTokensWithPositions(hc.mtoks)
					parser.PutParser(pp)
					if got := c05ErrKey(err); got != hc.ref {
						mu.Lock()
						bad[hc.text] = got + " want " + hc.ref
						mu.Unlock()
						return
					}
				}
			}()
		}
		wg.Wait()
		runtime.GOMAXPROCS(prev)
		res.count("concurrent-locations", true)
		for text, d := range bad {
			res.fail("error-location-under-concurrency", "parsers used side by side, one per goroutine: the error of a text is not the one it has when parsed on its own", map[string]any{"input": text, "workers": 8}, map[string]any{"got_want": d})
			break
		}
	}

}

// c05ErrKey: code and location of the first structured error in the chain
func c05ErrKey(err error) string {
	if err == nil {
		return "accepted"
	}
	for x := err; x != nil; {
		if ee, ok := x.(*goerrors.Error); ok {
			return fmt.Sprintf("%s@%d:%d", ee.Code, ee.Location.Line, ee.Location.Column)
		}
		u, ok := x.(interface{ Unwrap() error })
		if !ok {
			break
		}
		x = u.Unwrap()
	}
	return "unstructured"
}
