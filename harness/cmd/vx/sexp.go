package main

import (
	"encoding/hex"
	"fmt"
	"os"
	"path/filepath"
	"reflect"
	"sort"
	"strconv"
	"strings"

	"github.com/ajitpratap0/GoSQLX/pkg/sql/ast"
)

var nodeIfaceType = reflect.TypeOf((*ast.Node)(nil)).Elem()

func isNodeType(t reflect.Type) bool {
	if t.Kind() == reflect.Struct {
		return t.Implements(nodeIfaceType) || reflect.PointerTo(t).Implements(nodeIfaceType)
	}
	return false
}

func sexpStr(s string) string {
	if dumpHexStrings {
		return hex.EncodeToString([]byte(s))
	}
	return strconv.Quote(s)
}

// dumpVal renders a Go value reachable from an AST as the generic s-expression mirrored by
// GoSQLXModel.Val: (node Ty (F v)...), (struct (F v)...), (list v...), (str "..."), (int n), (bool b), nil.
func dumpVal(v reflect.Value) string {
	var b strings.Builder
	dumpInto(&b, v, 0)
	return b.String()
}

var dumpHexStrings bool

// dumpNodeHex is dumpNode with every string hex-encoded (the form the Lean driver reads)
func dumpNodeHex(n any) string {
	dumpHexStrings = true
	defer func() { dumpHexStrings = false }()
	return dumpVal(reflect.ValueOf(n))
}

var dumpDepthCap = 20000

// dumpShallow: the dump cut below n levels (a cheap content key for nodes that sit on top of very deep trees)
func dumpShallow(v reflect.Value, n int) string {
	old := dumpDepthCap
	dumpDepthCap = n
	defer func() { dumpDepthCap = old }()
	return dumpVal(v)
}

func dumpInto(b *strings.Builder, v reflect.Value, depth int) {
	if depth > dumpDepthCap {
		b.WriteString("…")
		return
	}
	if !v.IsValid() {
		b.WriteString("nil")
		return
	}
	switch v.Kind() {
	case reflect.Interface, reflect.Pointer:
		if v.IsNil() {
			b.WriteString("nil")
			return
		}
		dumpInto(b, v.Elem(), depth+1)
	case reflect.Struct:
		t := v.Type()
		if isNodeType(t) {
			b.WriteString("(node " + t.Name())
		} else {
			b.WriteString("(struct")
		}
		for i := 0; i < v.NumField(); i++ {
			f := t.Field(i)
			b.WriteString(" (" + f.Name + " ")
			dumpInto(b, v.Field(i), depth+1)
			b.WriteString(")")
		}
		b.WriteString(")")
	case reflect.Slice, reflect.Array:
		if v.Kind() == reflect.Slice && v.IsNil() {
			b.WriteString("(list)")
			return
		}
		if v.Type().Elem().Kind() == reflect.Uint8 {
			b.WriteString("(str " + sexpStr(string(v.Bytes())) + ")")
			return
		}
		b.WriteString("(list")
		for i := 0; i < v.Len(); i++ {
			b.WriteString(" ")
			dumpInto(b, v.Index(i), depth+1)
		}
		b.WriteString(")")
	case reflect.Map:
		keys := v.MapKeys()
		sort.Slice(keys, func(i, j int) bool { return fmt.Sprint(keys[i]) < fmt.Sprint(keys[j]) })
		b.WriteString("(list")
		for _, k := range keys {
			b.WriteString(" ")
			dumpInto(b, v.MapIndex(k), depth+1)
		}
		b.WriteString(")")
	case reflect.String:
		b.WriteString("(str " + sexpStr(v.String()) + ")")
	case reflect.Bool:
		if v.Bool() {
			b.WriteString("(bool true)")
		} else {
			b.WriteString("(bool false)")
		}
	case reflect.Int, reflect.Int8, reflect.Int16, reflect.Int32, reflect.Int64:
		b.WriteString("(int " + strconv.FormatInt(v.Int(), 10) + ")")
	case reflect.Uint, reflect.Uint8, reflect.Uint16, reflect.Uint32, reflect.Uint64:
		b.WriteString("(int " + strconv.FormatUint(v.Uint(), 10) + ")")
	case reflect.Float32, reflect.Float64:
		b.WriteString("(str " + sexpStr(strconv.FormatFloat(v.Float(), 'g', -1, 64)) + ")")
	default:
		b.WriteString("nil")
	}
}

func dumpNode(n any) string { return dumpVal(reflect.ValueOf(n)) }

// ---------------------------------------------------------------------------------------------
// SQL corpus: the repository's own .sql files plus a built-in list covering every statement kind

func repoCorpus() []string {
	var out []string
	for _, root := range []string{repoDir + "/testdata", repoDir + "/examples", repoDir + "/pkg", repoDir + "/cmd"} {
		_ = filepath.Walk(root, func(path string, info os.FileInfo, err error) error {
			if err != nil || info.IsDir() || !strings.HasSuffix(path, ".sql") || info.Size() > 200_000 {
				return nil
			}
			b, err := os.ReadFile(path)
			if err == nil {
				out = append(out, string(b))
			}
			return nil
		})
	}
	sort.Strings(out)
	return out
}

var builtinCorpus = []string{
	"SELECT a AS \"select\" FROM t", "SELECT a AS \"Order\", b AS \"group\" FROM t", "SELECT a FROM \"from\"", "SELECT a FROM t AS \"where\"", "SELECT t.\"select\" FROM t", "SELECT \"select\" FROM t",
	"UPDATE \"table\" SET \"set\" = 1", "INSERT INTO \"into\" (\"values\") VALUES (1)",
	"SELECT 1",
	"INSERT INTO t (a) SELECT a FROM s RETURNING a", "INSERT INTO t (a) SELECT a FROM s WHERE a > 1 ON CONFLICT (a) DO NOTHING", "INSERT INTO t (a) SELECT a FROM s ON DUPLICATE KEY UPDATE a = 1",
	"INSERT INTO t (a, b) SELECT a, b FROM s ON CONFLICT (a) DO UPDATE SET b = 2 RETURNING a, b", "WITH c AS (SELECT a FROM s) INSERT INTO t (a) SELECT a FROM c RETURNING a",
	"SELECT a, b AS c, t.d, t.* FROM t WHERE a = 1 AND b <> 'x' OR NOT c",
	"SELECT DISTINCT a FROM t1, t2 AS u WHERE t1.id = u.id",
	"SELECT a FROM t INNER JOIN u ON t.id = u.id LEFT JOIN v ON v.k = u.k RIGHT JOIN w USING (k) CROSS JOIN x NATURAL JOIN y FULL OUTER JOIN z ON z.a = t.a",
	"SELECT a, COUNT(*), SUM(DISTINCT b) FROM t GROUP BY a HAVING COUNT(*) > 1 ORDER BY a DESC NULLS LAST, 2 ASC LIMIT 10 OFFSET 5",
	"SELECT a FROM t GROUP BY ROLLUP (a, b)",
	"SELECT a FROM t GROUP BY CUBE (a, b)",
	"SELECT a FROM t GROUP BY GROUPING SETS ((a), (a, b), ())",
	"SELECT a FROM t ORDER BY a FETCH FIRST 5 ROWS ONLY",
	"SELECT a FROM t OFFSET 2 ROWS FETCH NEXT 3 ROWS WITH TIES",
	"SELECT a FROM t FOR UPDATE OF t NOWAIT",
	"SELECT a FROM t FOR SHARE SKIP LOCKED",
	"SELECT CASE WHEN a > 1 THEN 'x' WHEN a < 0 THEN 'y' ELSE 'z' END, CASE a WHEN 1 THEN 2 END FROM t",
	"SELECT CAST(a AS INT), a::text, EXTRACT(YEAR FROM d), SUBSTRING(s FROM 1 FOR 2), POSITION('a' IN s) FROM t",
	"SELECT a FROM t WHERE a IN (1, 2, 3) AND b NOT IN (SELECT x FROM u) AND c BETWEEN 1 AND 2 AND d NOT BETWEEN 3 AND 4",
	"SELECT a FROM t WHERE a LIKE 'x%' AND b NOT LIKE 'y' AND c ILIKE 'z' AND d IS NULL AND e IS NOT NULL",
	"SELECT a FROM t WHERE EXISTS (SELECT 1 FROM u WHERE u.id = t.id) AND NOT EXISTS (SELECT 1 FROM v)",
	"SELECT a FROM t WHERE a = ANY (SELECT x FROM u) OR b > ALL (SELECT y FROM v)",
	"SELECT (SELECT MAX(x) FROM u) AS m, a + b * c - d / e % f, a || b FROM t",
	"SELECT SUM(x) OVER (PARTITION BY a ORDER BY b ROWS BETWEEN 2 PRECEDING AND CURRENT ROW), ROW_NUMBER() OVER w FROM t WINDOW w AS (ORDER BY a)",
	"SELECT SUM(x) OVER (ORDER BY y ROWS BETWEEN 2 PRECEDING AND 3 FOLLOWING) FROM t",
	"SELECT RANK() OVER (ORDER BY y RANGE UNBOUNDED PRECEDING), COUNT(*) FILTER (WHERE a > 1), STRING_AGG(a, ',' ORDER BY b) FROM t",
	"SELECT PERCENTILE_CONT(0.5) WITHIN GROUP (ORDER BY x) FROM t",
	"SELECT a FROM (SELECT b AS a FROM u) AS s JOIN LATERAL (SELECT c FROM v WHERE v.k = s.a) AS l ON true",
	"SELECT a FROM t UNION SELECT b FROM u UNION ALL SELECT c FROM v EXCEPT SELECT d FROM w INTERSECT SELECT e FROM x",
	"WITH c AS (SELECT a FROM t), d (x, y) AS (SELECT 1, 2) SELECT * FROM c JOIN d ON c.a = d.x",
	"WITH RECURSIVE r AS (SELECT 1 AS n UNION ALL SELECT n + 1 FROM r WHERE n < 5) SELECT n FROM r",
	"WITH c AS MATERIALIZED (SELECT 1) SELECT * FROM c",
	"INSERT INTO t (a, b) VALUES (1, 'x'), (2, 'y')",
	"INSERT INTO t (a, b) SELECT c, d FROM u WHERE c > 1",
	"INSERT INTO t (a) VALUES (1) ON CONFLICT (a) DO UPDATE SET a = 2 WHERE t.a < 5 RETURNING a",
	"INSERT INTO t (a) VALUES (1) ON CONFLICT DO NOTHING",
	"INSERT INTO t (a) VALUES (1) ON DUPLICATE KEY UPDATE a = 2",
	"WITH c AS (SELECT 1 AS a) INSERT INTO t (a) SELECT a FROM c",
	"UPDATE t SET a = 1, b = b + 1 WHERE c = 2 RETURNING a, b",
	"UPDATE t AS x SET a = u.a FROM u WHERE x.id = u.id",
	"DELETE FROM t WHERE a = 1 RETURNING *",
	"DELETE FROM t AS x USING u WHERE x.id = u.id",
	"MERGE INTO tgt AS t USING src AS s ON t.id = s.id WHEN MATCHED THEN UPDATE SET a = s.a WHEN NOT MATCHED THEN INSERT (id, a) VALUES (s.id, s.a)",
	"MERGE INTO tgt USING src ON tgt.id = src.id WHEN MATCHED AND src.d = 1 THEN DELETE",
	"CREATE TABLE t (a INT PRIMARY KEY, b VARCHAR(10) NOT NULL DEFAULT 'x', c INT REFERENCES u (id), CONSTRAINT k UNIQUE (b), CHECK (a > 0))",
	"CREATE TABLE IF NOT EXISTS t (a INT) ENGINE=InnoDB",
	"CREATE TABLE t (a INT, b DATE) PARTITION BY RANGE (b)",
	"CREATE VIEW v AS SELECT a FROM t",
	"CREATE OR REPLACE VIEW v (x) AS SELECT a FROM t",
	"CREATE MATERIALIZED VIEW mv AS SELECT a FROM t",
	"REFRESH MATERIALIZED VIEW mv",
	"CREATE UNIQUE INDEX i ON t (a, b DESC)",
	"DROP TABLE IF EXISTS t CASCADE",
	"DROP VIEW v",
	"DROP INDEX i",
	"TRUNCATE TABLE t",
	"ALTER TABLE t ADD COLUMN c INT",
	"ALTER TABLE t DROP COLUMN c",
	"ALTER TABLE t RENAME COLUMN a TO b",
	"ALTER TABLE t RENAME TO u",
	"ALTER TABLE t ADD CONSTRAINT k UNIQUE (a)",
	"ALTER TABLE t DROP CONSTRAINT k",
	"SELECT a[1], b[1:2], ARRAY[1, 2, 3], (1, 2) FROM t",
	"SELECT a -> 'k', a ->> 'k', a #> '{a,b}', a @> b, a ? 'k' FROM t",
	"SELECT INTERVAL '1 day', TRUE, FALSE, NULL, 1.5e3, $1, :name FROM t",
	"SELECT a FROM t WHERE a REGEXP 'x' OR MATCH (a, b) AGAINST ('q' IN BOOLEAN MODE)",
	"SELECT a FROM t WHERE (a, b) IN ((1, 2), (3, 4))",
	"SELECT \"select\", \"x y\" FROM \"from\"",
	"SELECT a FROM t; SELECT b FROM u;",
	"SHOW TABLES",
	"DESCRIBE t",
	"REPLACE INTO t (a) VALUES (1)",
}

// compactDump renders a tree with every zero-valued field left out: (Type Field=value …), lists in brackets, strings
// quoted. What is not written in the SQL text does not show; it is the form of the hand-reviewed expectations in
// corpus/c03_clauses.tsv.
func compactDump(v reflect.Value) string {
	var b strings.Builder
	compactInto(&b, v)
	return b.String()
}

func compactInto(b *strings.Builder, v reflect.Value) {
	if !v.IsValid() {
		b.WriteString("nil")
		return
	}
	switch v.Kind() {
	case reflect.Interface, reflect.Pointer:
		if v.IsNil() {
			b.WriteString("nil")
			return
		}
		compactInto(b, v.Elem())
	case reflect.Struct:
		b.WriteString("(" + v.Type().Name())
		for i := 0; i < v.NumField(); i++ {
			f := v.Field(i)
			if f.IsZero() {
				continue
			}
			b.WriteString(" " + v.Type().Field(i).Name + "=")
			compactInto(b, f)
		}
		b.WriteString(")")
	case reflect.Slice:
		b.WriteString("[")
		for i := 0; i < v.Len(); i++ {
			if i > 0 {
				b.WriteString(" ")
			}
			compactInto(b, v.Index(i))
		}
		b.WriteString("]")
	case reflect.String:
		b.WriteString(fmt.Sprintf("%q", v.String()))
	default:
		if v.CanInterface() {
			b.WriteString(fmt.Sprint(v.Interface()))
		} else {
			b.WriteString(fmt.Sprint(v))
		}
	}
}

// clauseCorpus: (statement, reviewed compact dump of its tree)
func clauseCorpus() [][2]string {
	raw, err := os.ReadFile(verifDir + "/corpus/c03_clauses.tsv")
	if err != nil {
		return nil
	}
	var out [][2]string
	for _, l := range strings.Split(string(raw), "\n") {
		if i := strings.Index(l, "\t"); i > 0 {
			out = append(out, [2]string{l[:i], l[i+1:]})
		}
	}
	return out
}

// the clause catalogue is part of the built-in corpus of every check that works on accepted statements
func init() {
	seen := map[string]bool{}
	for _, s := range builtinCorpus {
		seen[s] = true
	}
	for _, e := range clauseCorpus() {
		if !seen[e[0]] {
			seen[e[0]] = true
			builtinCorpus = append(builtinCorpus, e[0])
		}
	}
}
