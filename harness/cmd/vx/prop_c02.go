package main

import (
	"context"
	"encoding/json"
	"fmt"
	"os"
	"runtime"
	"strings"
	"time"

	"github.com/ajitpratap0/GoSQLX/pkg/sql/parser"
	"github.com/ajitpratap0/GoSQLX/pkg/sql/tokenizer"
)

func init() { props["C02"] = runC02 }

// nestTemplate: one self-embedding production; Render(n) nests it n levels deep.
type nestTemplate struct {
	name   string
	render func(n int) string
}

func rep(s string, n int) string { return strings.Repeat(s, n) }

func nestTemplates() []nestTemplate {
	wrap := func(pre, open, inner, close, post string) func(int) string {
		return func(n int) string { return pre + rep(open, n) + inner + rep(close, n) + post }
	}
	var later []nestTemplate
	// the nesting sits in a *later* operand: the right (and the left) operand of every binary operator, the second
	// argument, the second list element, the second arm, the upper bound — what is counted for the first operand of a
	// production is counted for the others
	for _, op := range []string{"OR", "AND", "=", "<>", "<", "+", "-", "*", "/", "%", "||", "LIKE"} {
		cond := "SELECT a FROM t WHERE "
		later = append(later, nestTemplate{"right-operand:" + op, wrap(cond, "1 "+op+" (", "2", ")", "")})
		later = append(later, nestTemplate{"left-operand:" + op, wrap(cond, "(", "2", ") "+op+" 1", "")})
		later = append(later, nestTemplate{"right-operand-call:" + op, wrap("SELECT ", "1 "+op+" f(", "2", ")", " FROM t")})
	}
	later = append(later,
		nestTemplate{"second-argument", wrap("SELECT ", "f(0, ", "1", ")", " FROM t")},
		nestTemplate{"second-list-element", wrap("SELECT a FROM t WHERE ", "a IN (0, (", "1", "))", "")},
		nestTemplate{"second-case-arm", wrap("SELECT ", "CASE WHEN a THEN 0 WHEN b THEN ", "1", " END", " FROM t")},
		nestTemplate{"between-upper-bound", wrap("SELECT a FROM t WHERE ", "a BETWEEN 0 AND (", "1", ")", "")},
		nestTemplate{"second-select-item", wrap("SELECT 0, ", "(", "1", ")", " FROM t")},
		nestTemplate{"second-join-condition", wrap("SELECT a FROM t JOIN u ON 1 = 1 JOIN v ON ", "(", "a = 1", ")", "")},
		nestTemplate{"having", wrap("SELECT a FROM t GROUP BY a HAVING ", "(", "a = 1", ")", "")},
		nestTemplate{"order-by-second-key", wrap("SELECT a FROM t ORDER BY a, ", "(", "b", ")", "")},
		nestTemplate{"values-second-row", wrap("INSERT INTO t VALUES (0), (", "(", "1", ")", ")")},
		nestTemplate{"update-second-assignment", wrap("UPDATE t SET a = 0, b = ", "(", "1", ")", "")},
	)
	return append(later, []nestTemplate{
		{"parens", wrap("SELECT ", "(", "1", ")", " FROM t")},
		{"parens-where", wrap("SELECT a FROM t WHERE ", "(", "a = 1", ")", "")},
		{"function-args", wrap("SELECT ", "f(", "1", ")", " FROM t")},
		{"case-when", wrap("SELECT ", "CASE WHEN ", "a", " THEN 1 END", " FROM t")},
		{"case-then", wrap("SELECT ", "CASE WHEN a THEN ", "1", " END", " FROM t")},
		{"case-else", wrap("SELECT ", "CASE WHEN a THEN 1 ELSE ", "2", " END", " FROM t")},
		{"in-subquery", wrap("SELECT a FROM t WHERE ", "a IN (SELECT a FROM t WHERE ", "a = 1", ")", "")},
		{"exists-subquery", wrap("SELECT a FROM t WHERE ", "EXISTS (SELECT a FROM t WHERE ", "a = 1", ")", "")},
		{"scalar-subquery", wrap("SELECT ", "(SELECT ", "1", ")", "")},
		{"derived-table", wrap("SELECT * FROM ", "(SELECT * FROM ", "t", ") x", "")},
		{"join-derived-table", wrap("SELECT * FROM t JOIN ", "(SELECT * FROM t JOIN ", "u", " ON 1 = 1) x", " ON 1 = 1")},
		{"cte-body", wrap("", "WITH c AS (", "SELECT 1", ") SELECT 1", "")},
		{"not-chain", wrap("SELECT a FROM t WHERE ", "NOT ", "a", "", "")},
		{"array-subscript", wrap("SELECT ", "a[", "1", "]", " FROM t")},
		{"array-constructor", wrap("SELECT ", "ARRAY[", "1", "]", " FROM t")},
		{"tuple", wrap("SELECT a FROM t WHERE ", "((1, ", "2", "), 3)", " = x")},
		{"in-list", wrap("SELECT a FROM t WHERE ", "a IN (", "1", ")", "")},
		{"between-bounds", wrap("SELECT a FROM t WHERE ", "a BETWEEN (", "1", ") AND 2", "")},
		{"cast", wrap("SELECT ", "CAST(", "1", " AS INT)", " FROM t")},
		{"window-partition", wrap("SELECT ", "SUM(a) OVER (PARTITION BY ", "b", ")", " FROM t")},
		{"match-against", wrap("SELECT a FROM t WHERE ", "MATCH(a) AGAINST (", "'x'", ")", "")},
		{"any-subquery", wrap("SELECT a FROM t WHERE ", "a = ANY (SELECT a FROM t WHERE ", "a = 1", ")", "")},
		{"insert-select", wrap("INSERT INTO t (a) ", "SELECT (", "1", ")", "")},
		{"update-where", wrap("UPDATE t SET a = 1 WHERE ", "a IN (SELECT a FROM t WHERE ", "a = 1", ")", "")},
		{"default-expr", wrap("CREATE TABLE t (a INT DEFAULT ", "(", "1", ")", ")")},
		{"check-expr", wrap("CREATE TABLE t (a INT CHECK ", "(", "a > 1", ")", ")")},
		{"interval-func", wrap("SELECT ", "COALESCE(x, ", "1", ")", " FROM t")},
		{"extract", wrap("SELECT ", "EXTRACT(YEAR FROM ", "d", ")", " FROM t")},
		{"substring", wrap("SELECT ", "SUBSTRING(", "s", " FROM 1)", " FROM t")},
		{"set-op-parens", wrap("", "(", "SELECT 1", ")", " UNION SELECT 2")},
		// prefix operators and modifiers: most are not in the accepted surface today (they are then
		// skipped after the shallow probe); if a change starts accepting one, its chain is probed.
		{"prefix-minus", wrap("SELECT ", "- ", "1", "", " FROM t")},
		{"prefix-plus", wrap("SELECT ", "+ ", "1", "", " FROM t")},
		{"prefix-minus-plus", wrap("SELECT ", "-+", "1", "", " FROM t")},
		{"prefix-minus-where", wrap("SELECT a FROM t WHERE a = ", "- ", "1", "", "")},
		{"prefix-tilde", wrap("SELECT ", "~ ", "1", "", " FROM t")},
		{"prefix-bang", wrap("SELECT ", "! ", "1", "", " FROM t")},
		{"prefix-at", wrap("SELECT ", "@ ", "1", "", " FROM t")},
		{"prefix-binary", wrap("SELECT ", "BINARY ", "a", "", " FROM t")},
		{"prefix-prior", wrap("SELECT ", "PRIOR ", "a", "", " FROM t")},
		{"prefix-distinct", wrap("SELECT ", "DISTINCT ", "a", "", " FROM t")},
		{"prefix-all", wrap("SELECT ", "ALL ", "a", "", " FROM t")},
		{"prefix-interval", wrap("SELECT ", "INTERVAL ", "'1 day'", "", " FROM t")},
		{"prefix-exists-not", wrap("SELECT a FROM t WHERE ", "NOT NOT ", "a", "", "")},
		{"prefix-lateral", wrap("SELECT * FROM ", "LATERAL ", "(SELECT 1) x", "", "")},
		{"prefix-only", wrap("SELECT * FROM ", "ONLY ", "t", "", "")},
		{"explain", wrap("", "EXPLAIN ", "SELECT 1", "", "")},
		{"qualified-name", wrap("SELECT ", "a.", "b", "", " FROM t")},
		{"postfix-cast", wrap("SELECT ", "", "a", "::int", " FROM t")},
		{"postfix-subscript", wrap("SELECT ", "", "a", "[1]", " FROM t")},
		{"postfix-json", wrap("SELECT ", "", "a", "->'k'", " FROM t")},
		{"postfix-is-null", wrap("SELECT a FROM t WHERE ", "", "a", " IS NULL", "")},
		{"postfix-collate", wrap("SELECT ", "", "a", " COLLATE x", " FROM t")},
		{"postfix-at-time-zone", wrap("SELECT ", "", "a", " AT TIME ZONE 'x'", " FROM t")},
	}...)
}

// chainTemplates: repetitions that build a deep tree through a loop rather than through recursion
// (left-deep operator chains, postfix chains). The parser may accept them at any length; what C02
// asks of them is that no stack overflows, so only survival is judged.
var chainOnly = map[string]bool{"postfix-cast": true, "postfix-subscript": true, "postfix-json": true, "qualified-name": true}

func runC02(c *runCtx) {
	res := c.res
	res.Rule = "every self-embedding template is nested at depths 10 (must be accepted), limit+1, limit+50, 1000, 10000 and the largest the token limit allows (must be rejected with an error and survive) in a child process; byte-size and token-count probes at limit-1, limit, limit+1 for Tokenize and TokenizeContext; call stacks sampled inside ctx.Err() are checked to be paths of the extracted call graph (distinct = distinct (template, depth) / (entry, size) probes)"
	pool := newChildPool()
	defer pool.Close()
	var lim map[string]int64
	if raw, err := os.ReadFile(verifDir + "/gen/limits.json"); err == nil {
		_ = json.Unmarshal(raw, &lim)
	}
	maxDepth := int(lim["MaxRecursionDepth"])
	if maxDepth == 0 {
		maxDepth = parser.MaxRecursionDepth
	}
	depths := []int{maxDepth + 1, maxDepth + 50, 1000}
	if !c.quick {
		depths = append(depths, 10000, 100000)
	} else {
		depths = append(depths, 10000)
	}
	for _, t := range nestTemplates() {
		// sanity / non-vacuity: a shallow nesting is accepted
		sh := t.render(10)
		a := pool.Run("parse", []byte(sh), 30*time.Second)
		res.count("nest|"+t.name+"|10", true)
		if a != "ok" {
			// the template is not in the accepted surface at all: note, do not fail (C03's business)
			res.stat("template-rejected-shallow:" + t.name)
			res.Notes = append(res.Notes, fmt.Sprintf("template %s rejected at depth 10 (%s): not probed for depth", t.name, a))
			continue
		}
		res.sample(map[string]any{"template": t.name, "depth10": truncate(sh, 120)})
		for _, d := range depths {
			sql := t.render(d)
			if len(sql) > int(lim["MaxInputSize"]) && lim["MaxInputSize"] > 0 {
				continue
			}
			for _, ep := range []string{"parse", "recovery", "parsectx", "parsetimeout", "validate"} {
				if ep != "parse" && d > 1000 {
					continue
				}
				ans := pool.Run(ep, []byte(sql), 120*time.Second)
				res.count(fmt.Sprintf("nest|%s|%d|%s", t.name, d, ep), true)
				switch {
				case ans == "crash":
					res.fail("nest-crash:"+t.name, fmt.Sprintf("process killed (fatal error) parsing %s nested %d deep via %s", t.name, d, ep),
						map[string]any{"template": t.name, "depth": d, "entry": ep, "sql_prefix": truncate(sql, 200)}, nil)
				case ans == "hang":
					res.fail("nest-hang:"+t.name, fmt.Sprintf("no answer within 120 s parsing %s nested %d deep via %s", t.name, d, ep),
						map[string]any{"template": t.name, "depth": d, "entry": ep}, nil)
				case ans == "ok" && chainOnly[t.name]:
					res.stat("chain-accepted:" + t.name)
				case ans == "ok":
					res.fail("nest-accepted:"+t.name, fmt.Sprintf("%s nested %d deep (limit %d) is accepted: the depth limit does not cover this production", t.name, d, maxDepth),
						map[string]any{"template": t.name, "depth": d, "entry": ep, "sql_prefix": truncate(sql, 200)}, nil)
				case strings.HasPrefix(ans, "panic"):
					res.fail("nest-panic:"+t.name, "panic escaped: "+ans, map[string]any{"template": t.name, "depth": d, "entry": ep}, nil)
				case ans == "unstructured":
					res.stat("nest-unstructured-error:" + t.name)
				default:
					res.stat("nest-rejected:" + ans)
				}
			}
		}
	}
	// mixed nestings: two value-wrapping productions alternate in blocks, so that no single production is nested
	// beyond the limit but the total is — "whatever construct is nested"
	type wrapper struct{ name, open, close string }
	wrappers := []wrapper{
		{"parens", "(", ")"}, {"call", "f(", ")"}, {"case-then", "CASE WHEN a THEN ", " END"}, {"scalar-subquery", "(SELECT ", ")"},
		{"cast", "CAST(", " AS INT)"}, {"coalesce", "COALESCE(x, ", ")"}, {"array", "ARRAY[", "]"}, {"in-subquery-value", "(SELECT 1 FROM t WHERE a IN (SELECT ", "))"},
		{"derived-table-value", "(SELECT x FROM (SELECT ", ") z)"},
	}
	blocks := [][2]int{{1, 1}, {40, 1}, {1, 40}, {30, 30}, {99, 99}}
	for _, w1 := range wrappers {
		for _, w2 := range wrappers {
			if w1.name == w2.name {
				continue
			}
			name := w1.name + "+" + w2.name
			// non-vacuity: one level of each is accepted
			if a := pool.Run("parse", []byte("SELECT "+w1.open+w2.open+"1"+w2.close+w1.close+" FROM t"), 30*time.Second); a != "ok" {
				res.stat("mixed-template-rejected-shallow:" + name)
				continue
			}
			for _, bl := range blocks {
				per := bl[0] + bl[1]
				for _, total := range []int{maxDepth + 60, 4 * maxDepth} {
					r := total/per + 1
					var open, cl strings.Builder
					for i := 0; i < r; i++ {
						open.WriteString(rep(w1.open, bl[0]) + rep(w2.open, bl[1]))
					}
					for i := 0; i < r; i++ {
						cl.WriteString(rep(w2.close, bl[1]) + rep(w1.close, bl[0]))
					}
					sql := "SELECT " + open.String() + "1" + cl.String() + " FROM t"
					ans := pool.Run("parse", []byte(sql), 120*time.Second)
					res.count(fmt.Sprintf("mixed|%s|%dx%d|%d", name, bl[0], bl[1], r*per), true)
					wit := map[string]any{"outer": w1.name, "inner": w2.name, "block": bl, "blocks": r, "total_depth": r * per, "sql_prefix": truncate(sql, 200)}
					switch {
					case ans == "crash":
						res.fail("nest-crash:mixed:"+name, fmt.Sprintf("process killed parsing %s alternating in blocks of %d and %d, %d levels in all", name, bl[0], bl[1], r*per), wit, nil)
					case ans == "hang":
						res.fail("nest-hang:mixed:"+name, "no answer within 120 s", wit, nil)
					case ans == "ok":
						res.fail("nest-accepted:mixed:"+name, fmt.Sprintf("%s alternating in blocks of %d and %d, %d levels in all (limit %d), is accepted: the depth limit does not cover mixed nesting", name, bl[0], bl[1], r*per, maxDepth), wit, nil)
					case strings.HasPrefix(ans, "panic"):
						res.fail("nest-panic:mixed:"+name, "panic escaped: "+ans, wit, nil)
					default:
						res.stat("mixed-rejected")
					}
				}
			}
		}
	}
	// long runs of one lexical element (comments of every style, blanks, words, literals, punctuation) under every
	// dialect: the tokenizer's stack use does not grow with the length of the input
	for _, piece := range []string{"-- c\n", "# c\n", "#\n", "/* c */ ", "/**/", "// c\n", "\n", " \t", "a ", "1 ", "'x' ", "\"q\" ", "`b` ", "( ", ") ", ", ", "; ", "- ", "$1 ", "$$x$$ ", ":p ", "@v ", "?"} {
		n := 400000
		if lim["MaxInputSize"] > 0 && n*len(piece) > int(lim["MaxInputSize"])-16 {
			n = (int(lim["MaxInputSize"]) - 16) / len(piece)
		}
		data := []byte(rep(piece, n) + "SELECT 1")
		for _, ep := range []string{"tokenize", "tokenize:alldialects"} {
			ans := pool.Run(ep, data, 120*time.Second)
			res.count(fmt.Sprintf("long-run|%q|%s", piece, ep), true)
			wit := map[string]any{"piece": piece, "repeated": n, "entry": ep}
			switch {
			case ans == "crash":
				res.fail("long-run-crash:"+ep, fmt.Sprintf("process killed (fatal error) tokenizing %d repetitions of %q", n, piece), wit, nil)
			case ans == "hang":
				res.fail("long-run-hang:"+ep, "no answer within 120 s", wit, nil)
			case strings.HasPrefix(ans, "panic"):
				res.fail("long-run-panic:"+ep, "panic escaped: "+ans, wit, nil)
			default:
				res.stat("long-run:" + strings.SplitN(ans, " ", 2)[0])
			}
		}
	}
	// byte-size limit: exactly at the limit is not rejected for that reason, one more byte is
	maxSize := int(lim["MaxInputSize"])
	maxTok := int(lim["MaxTokens"])
	if maxSize == 0 {
		maxSize = tokenizer.MaxInputSize
	}
	if maxTok == 0 {
		maxTok = tokenizer.MaxTokens
	}
	mk := func(n int) []byte {
		b := make([]byte, n)
		for i := range b {
			b[i] = ' '
		}
		copy(b, "SELECT 1")
		return b
	}
	limitEPs := []string{"tokenize", "tokenizectx", "tokenize:dialect", "tokenize:keywords", "tokenizectx:keywords", "tokenize:pool", "tokenizectx:pool",
		"tokenize:reused", "tokenize:setdialect", "parse", "parsebytes", "parsectx", "validate"}
	for _, ep := range limitEPs {
		for _, d := range []int{-1, 0, 1} {
			ans := pool.Run(ep, mk(maxSize+d), 120*time.Second)
			res.count(fmt.Sprintf("size|%s|%d", ep, d), true)
			want := "ok"
			if d > 0 {
				want = "E1006"
			}
			if ans != want {
				res.fail(fmt.Sprintf("size-limit:%s:%+d", ep, d), fmt.Sprintf("%s of %d bytes (limit%+d) answered %s, want %s", ep, maxSize+d, d, ans, want),
					map[string]any{"entry": ep, "bytes": maxSize + d}, nil)
			}
		}
	}
	// the byte limit counts the bytes handed over, whatever they are: a byte-order mark, blanks or a comment in front, one
	// long literal, one long comment, multi-byte characters, a final line end — just over the limit (+1 … +4) is refused
	// with E1006, exactly at the limit is not refused for its size
	sizeShapes := []struct {
		name string
		mk   func(n int) []byte
	}{
		{"byte-order-mark", func(n int) []byte { b := mk(n); copy(b, "\xef\xbb\xbfSELECT 1"); return b }},
		{"leading-blanks", func(n int) []byte { b := mk(n); copy(b, "   \n\t SELECT 1"); return b }},
		{"leading-comment", func(n int) []byte { b := mk(n); copy(b, "/* c */ SELECT 1"); return b }},
		{"one-literal", func(n int) []byte { return []byte("SELECT '" + strings.Repeat("x", n-9) + "'") }},
		{"one-comment", func(n int) []byte { return []byte("SELECT 1 --" + strings.Repeat("c", n-11)) }},
		{"multi-byte", func(n int) []byte {
			return []byte("SELECT '" + strings.Repeat("é", (n-9)/2) + strings.Repeat("x", (n-9)%2) + "'")
		}},
		{"final-newline", func(n int) []byte { b := mk(n); b[n-1] = '\n'; return b }},
		{"nul-bytes", func(n int) []byte { b := mk(n); b[n-2], b[n-1] = 0, 0; return b }},
	}
	for _, sh := range sizeShapes {
		for _, ep := range []string{"tokenize", "tokenizectx", "tokenize:pool", "parse", "validate"} {
			for _, d := range []int{0, 1, 2, 3, 4} {
				in := sh.mk(maxSize + d)
				if len(in) != maxSize+d {
					res.stat("size-shape-length-off")
					continue
				}
				ans := pool.Run(ep, in, 120*time.Second)
				res.count(fmt.Sprintf("size|%s|%s|%d", sh.name, ep, d), true)
				if (d > 0) != (ans == "E1006") {
					res.fail(fmt.Sprintf("size-limit:%s:%s", ep, sh.name), fmt.Sprintf("%s of %d bytes (limit%+d, %s) answered %s", ep, maxSize+d, d, sh.name, ans),
						map[string]any{"entry": ep, "bytes": maxSize + d, "shape": sh.name}, nil)
					break
				}
			}
		}
	}
	// token-count limit: `n` one-character tokens
	mkTok := func(n int) []byte {
		// "1 " repeated: n NUMBER tokens, 2n bytes (fits: 2M < 10 MiB)
		return []byte(strings.Repeat("1 ", n))
	}
	offs := []int{-1, 0, 1, 2, 448, 449, 1025}
	for _, ep := range limitEPs[:9] {
		for _, d := range offs {
			ans := pool.Run(ep, mkTok(maxTok+d), 300*time.Second)
			res.count(fmt.Sprintf("tokens|%s|%d", ep, d), true)
			want := "ok"
			if d > 0 {
				want = "E1007"
			}
			if ans != want {
				res.fail(fmt.Sprintf("token-limit:%s", ep), fmt.Sprintf("%s of %d tokens (limit%+d) answered %s, want %s", ep, maxTok+d, d, ans, want),
					map[string]any{"entry": ep, "tokens": maxTok + d, "input": fmt.Sprintf("\"1 \" x %d", maxTok+d)}, nil)
			}
		}
	}
	// the token limit counts the tokens of the whole input, whatever they are and however they are grouped into statements
	shapes := []struct {
		name string
		mk   func(n int) []byte
	}{
		{"statements-of-two", func(n int) []byte {
			s := strings.Repeat("1;", n/2)
			if n%2 == 1 {
				s += "1"
			}
			return []byte(s)
		}},
		{"statements-of-1000", func(n int) []byte {
			var b strings.Builder
			for i := 0; i < n; i++ {
				if i%1000 == 999 {
					b.WriteString(";")
				} else {
					b.WriteString("1 ")
				}
			}
			return []byte(b.String())
		}},
		{"five-statements", func(n int) []byte {
			var b strings.Builder
			per := n / 5
			for i := 0; i < n; i++ {
				if i%per == per-1 && i < n-1 {
					b.WriteString(";")
				} else {
					b.WriteString("a ")
				}
			}
			return []byte(b.String())
		}},
		{"mixed-kinds", func(n int) []byte {
			kinds := []string{"a", ",", "'x'", "(", ")", ";", "1.5", "<=", "\"q\"", "$1", "`b`", "||"}
			var b strings.Builder
			for i := 0; i < n; i++ {
				b.WriteString(kinds[i%len(kinds)])
				b.WriteString(" ")
			}
			return []byte(b.String())
		}},
	}
	for _, sh := range shapes {
		for _, ep := range []string{"tokenize", "tokenizectx"} {
			for _, d := range []int{0, 1, 777} {
				ans := pool.Run(ep, sh.mk(maxTok+d), 300*time.Second)
				res.count(fmt.Sprintf("tokens|%s|%s|%d", sh.name, ep, d), true)
				want := "ok"
				if d > 0 {
					want = "E1007"
				}
				if ans != want {
					res.fail(fmt.Sprintf("token-limit:%s:%s", ep, sh.name), fmt.Sprintf("%s of %d tokens (limit%+d, %s) answered %s, want %s", ep, maxTok+d, d, sh.name, ans, want),
						map[string]any{"entry": ep, "tokens": maxTok + d, "shape": sh.name}, nil)
				}
			}
		}
	}
	// dynamic validation of the extracted call graph: stacks seen inside ctx.Err() must be paths of it
	validateCallGraph(c)
}

type stackCtx struct {
	context.Context
	stacks map[string]bool
	n      int
}

func (s *stackCtx) Err() error {
	s.n++
	pcs := make([]uintptr, 256)
	k := runtime.Callers(2, pcs)
	frames := runtime.CallersFrames(pcs[:k])
	var names []string
	for {
		f, more := frames.Next()
		const pfx = "github.com/ajitpratap0/GoSQLX/pkg/sql/parser.(*Parser)."
		if strings.HasPrefix(f.Function, pfx) {
			nm := strings.TrimPrefix(f.Function, pfx)
			if i := strings.Index(nm, "."); i >= 0 { // closures: parseX.func1
				nm = nm[:i]
			}
			names = append(names, nm)
		}
		if !more {
			break
		}
	}
	s.stacks[strings.Join(names, "<")] = true
	return nil
}

func validateCallGraph(c *runCtx) {
	res := c.res
	var g CallGraph
	raw, err := os.ReadFile(verifDir + "/gen/parser_callgraph.json")
	if err != nil || json.Unmarshal(raw, &g) != nil {
		res.corrFail("callgraph-missing", "gen/parser_callgraph.json unreadable", nil, nil)
		return
	}
	edges := map[string]bool{}
	for _, e := range g.Edges {
		edges[e.Src+">"+e.Dst] = true
	}
	sc := &stackCtx{Context: context.Background(), stacks: map[string]bool{}}
	inputs := append([]string{}, builtinCorpus...)
	gen := newSQLGen(c.rng.Fork())
	for i := 0; i < c.n(500, 5000); i++ {
		inputs = append(inputs, gen.Statement())
	}
	for _, sql := range inputs {
		tk := tokenizer.GetTokenizer()
		toks, err := tk.Tokenize([]byte(sql))
		tokenizer.PutTokenizer(tk)
		if err != nil {
			continue
		}
		p := parser.NewParser()
		_, _ = p.ParseContextFromModelTokens(sc, toks)
	}
	for st := range sc.stacks {
		names := strings.Split(st, "<")
		// names[0] is the innermost frame
		for i := 0; i+1 < len(names); i++ {
			callee, caller := names[i], names[i+1]
			res.CorrCases++
			if caller == callee {
				if !edges[caller+">"+callee] {
					res.corrFail("callgraph-edge:"+caller+">"+callee, "call edge observed at run time is missing from the extracted call graph", st, nil)
				}
				continue
			}
			if !edges[caller+">"+callee] {
				res.corrFail("callgraph-edge:"+caller+">"+callee, "call edge observed at run time is missing from the extracted call graph", st, nil)
			}
		}
	}
	res.statN("distinct_stacks", len(sc.stacks))
	res.statN("ctx_polls", sc.n)
}
