package main

import (
	"fmt"
	"github.com/ajitpratap0/GoSQLX/pkg/sql/security"
	"reflect"
	"sort"
	"strings"

	"github.com/ajitpratap0/GoSQLX/pkg/gosqlx"
	"github.com/ajitpratap0/GoSQLX/pkg/sql/ast"
)

func init() { props["C14"] = runC14 }

// reachable collects every Node-typed value reachable through the tree's own fields, with the
// (parent type, field) through which it is reached.
// one node of the tree as found through the tree's own fields
type reached struct {
	typ         string
	addr        uintptr // address of the struct the node is (0 when it cannot be taken)
	val         reflect.Value
	parent, fld string
	up          int // index of the nearest enclosing node in the list, -1 at the top
}

// reachableNodes walks the tree's own fields and lists every node-typed struct it holds, with its address.
// Iterative depth is bounded only by memory: flat operator chains give trees thousands of levels deep.
func reachableNodes(root any) []reached {
	var out []reached
	var walk func(v reflect.Value, parent, fld string, up int, byValue bool)
	walk = func(v reflect.Value, parent, fld string, up int, byValue bool) {
		if !v.IsValid() {
			return
		}
		switch v.Kind() {
		case reflect.Interface, reflect.Pointer:
			if v.IsNil() {
				return
			}
			walk(v.Elem(), parent, fld, up, false)
		case reflect.Struct:
			t := v.Type()
			p, f := parent, fld
			if isNodeType(t) {
				if byValue && v.IsZero() {
					return // zero value of a by-value node field: absent, not a node of the tree
				}
				var addr uintptr
				if v.CanAddr() {
					addr = v.Addr().Pointer()
				}
				out = append(out, reached{t.Name(), addr, v, parent, fld, up})
				up = len(out) - 1
				p, f = t.Name(), ""
			}
			for i := 0; i < v.NumField(); i++ {
				fn := t.Field(i).Name
				if f != "" {
					fn = f + "." + fn
				}
				walk(v.Field(i), p, fn, up, true)
			}
		case reflect.Slice, reflect.Array:
			for i := 0; i < v.Len(); i++ {
				walk(v.Index(i), parent, fld, up, false)
			}
		case reflect.Map:
			for _, k := range v.MapKeys() {
				walk(v.MapIndex(k), parent, fld, up, false)
			}
		}
	}
	walk(reflect.ValueOf(root), "", "", -1, false)
	return out
}

type visitedNode struct {
	typ  string
	addr uintptr
	val  reflect.Value
}

// checkTraversal: the nodes Inspect visits are exactly the nodes the tree holds. Nodes are matched by identity
// (type and address); what is left over on either side (a visitor handed a copy, a value held in an interface) is
// matched by content.
func checkTraversal(res *Result, sql string, tree *ast.AST) {
	var vis []visitedNode
	ast.Inspect(tree, func(n ast.Node) bool {
		if n == nil {
			return false
		}
		v := reflect.ValueOf(n)
		if v.Kind() == reflect.Pointer {
			if v.IsNil() {
				return false
			}
			vis = append(vis, visitedNode{v.Elem().Type().Name(), v.Pointer(), v.Elem()})
		} else {
			vis = append(vis, visitedNode{v.Type().Name(), 0, v})
		}
		return true
	})
	reach := reachableNodes(tree)
	type id struct {
		typ  string
		addr uintptr
	}
	byID := map[id][]int{}
	for i, r := range reach {
		if r.addr != 0 {
			byID[id{r.typ, r.addr}] = append(byID[id{r.typ, r.addr}], i)
		}
	}
	matched := make([]bool, len(reach))
	var leftVis []visitedNode
	for _, v := range vis {
		if v.addr != 0 {
			if xs := byID[id{v.typ, v.addr}]; len(xs) > 0 {
				matched[xs[0]] = true
				byID[id{v.typ, v.addr}] = xs[1:]
				continue
			}
		}
		leftVis = append(leftVis, v)
	}
	// leftovers by content
	byDump := map[string][]int{}
	nLeft := 0
	for i, r := range reach {
		if !matched[i] {
			nLeft++
		}
		_ = r
	}
	if len(leftVis) > 0 && nLeft > 0 {
		for i, r := range reach {
			if !matched[i] {
				d := r.typ + dumpShallow(r.val, 8)
				byDump[d] = append(byDump[d], i)
			}
		}
		rest := leftVis[:0]
		for _, v := range leftVis {
			d := v.typ + dumpShallow(v.val, 8)
			if xs := byDump[d]; len(xs) > 0 {
				matched[xs[0]] = true
				byDump[d] = xs[1:]
				continue
			}
			rest = append(rest, v)
		}
		leftVis = rest
	}
	for i, r := range reach {
		if matched[i] {
			continue
		}
		if r.up >= 0 && !matched[r.up] {
			continue // below a node that is itself missing: only the top-most missing node is reported
		}
		key := "children-missing:" + r.parent + "." + r.fld
		res.fail(key, fmt.Sprintf("Inspect never visits the %s reachable through %s.%s", r.typ, r.parent, r.fld),
			map[string]any{"sql": truncate(sql, 600), "node": truncate(dumpShallow(r.val, 12), 300)}, nil)
	}
	for _, v := range leftVis {
		res.fail("children-extra", "Inspect visits a node that is not reachable through the tree's own fields",
			map[string]any{"sql": truncate(sql, 600), "node": truncate(dumpShallow(v.val, 12), 300)}, nil)
	}
	res.statN("nodes_reachable", len(reach))
	res.statN("nodes_visited", len(vis))
	checkAnalyses(res, sql, tree, reach)
}

// checkAnalyses: the analyses built on the traversal (table and function extraction) report every table reference
// and every function call the tree holds, wherever it sits — compared with what reflection finds in the tree itself.
func checkAnalyses(res *Result, sql string, tree *ast.AST, reach []reached) {
	tabs := map[string]bool{}
	for _, t := range gosqlx.ExtractTables(tree) {
		tabs[strings.ToLower(t)] = true
	}
	for _, q := range gosqlx.ExtractTablesQualified(tree) {
		tabs[strings.ToLower(q.String())] = true
		tabs[strings.ToLower(q.Name)] = true
	}
	fns := map[string]bool{}
	for _, f := range gosqlx.ExtractFunctions(tree) {
		fns[strings.ToLower(f)] = true
	}
	// names introduced by WITH are not tables
	ctes := map[string]bool{}
	for _, r := range reach {
		if r.typ == "CommonTableExpr" {
			ctes[strings.ToLower(r.val.FieldByName("Name").String())] = true
		}
	}
	where := func(r reached) string {
		// the nearest enclosing clause field, e.g. JoinClause.Condition > InExpression.Subquery
		path := r.parent + "." + r.fld
		for up := r.up; up >= 0; up = reach[up].up {
			if t := reach[up].typ; t == "JoinClause" || t == "WindowFrameBound" || t == "WindowFrame" || t == "WindowSpec" || t == "MergeStatement" || t == "OnConflict" {
				return t + ">" + path
			}
		}
		return path
	}
	for _, r := range reach {
		switch r.typ {
		case "TableReference":
			name := strings.ToLower(r.val.FieldByName("Name").String())
			if name == "" || ctes[name] || tabs[name] || strings.HasPrefix(name, "(") {
				continue // "(t_with_n_joins)" is the parser's synthetic name for the left side of a join chain, not a written table
			}
			if i := strings.LastIndex(name, "."); i >= 0 && tabs[name[i+1:]] {
				continue
			}
			res.fail("analysis-misses:table:"+where(r), "ExtractTables does not report a table reference the tree holds",
				map[string]any{"sql": truncate(sql, 600), "table": name}, nil)
		case "FunctionCall":
			name := strings.ToLower(r.val.FieldByName("Name").String())
			if name == "" || fns[name] {
				continue
			}
			res.fail("analysis-misses:function:"+where(r), "ExtractFunctions does not report a function call the tree holds",
				map[string]any{"sql": truncate(sql, 600), "function": name}, nil)
		}
	}
}

func truncate(s string, n int) string {
	if len(s) > n {
		return s[:n] + "…"
	}
	return s
}

func runC14(c *runCtx) {
	res := c.res
	res.Rule = "every statement of the built-in corpus, the repository's .sql files and generated model statements that parses is traversed with ast.Inspect; the visited set is compared with the reflection-reachable node set (distinct = distinct accepted inputs with at least 2 nodes)"
	inputs := append([]string{}, builtinCorpus...)
	inputs = append(inputs, repoCorpus()...)
	g := newSQLGen(c.rng.Fork())
	for i := 0; i < c.n(3000, 60000); i++ {
		inputs = append(inputs, g.Statement())
	}
	// deep and wide shapes: the parser builds left-deep trees for flat operator chains and set-operation chains, so the
	// depth of a tree grows with the number of operands; the construct that must not be missed sits deepest
	for _, n := range []int{150, 700, c.n(3000, 20000)} {
		for _, op := range []string{"OR", "AND", "+", "||"} {
			rhs := " id = 1"
			if op == "+" || op == "||" {
				rhs = " id"
			}
			inputs = append(inputs, "SELECT a FROM t WHERE id IN (SELECT s FROM deepest_"+fmt.Sprint(n)+") "+op+rhs+strings.Repeat(" "+op+rhs, n))
			inputs = append(inputs, "SELECT (SELECT m FROM deepest) "+op+" x"+strings.Repeat(" "+op+" x", n)+" FROM t")
		}
		inputs = append(inputs, "SELECT a FROM t WHERE id IN (SELECT s FROM first_arm)"+strings.Repeat(" UNION SELECT b FROM u", n/4+1))
		inputs = append(inputs, "SELECT f("+strings.Repeat("g(", 80)+"(SELECT 1 FROM innermost)"+strings.Repeat(")", 80)+") FROM t")
	}
	// optional parts of one node in every combination (a node that carries several of them at once must yield them all):
	// the modifiers of a function call, the clauses of each statement kind
	{
		combos := func(head string, parts []string, tail string) {
			for mask := 0; mask < 1<<len(parts); mask++ {
				sql := head
				for i, p := range parts {
					if mask&(1<<i) != 0 {
						sql += p
					}
				}
				inputs = append(inputs, sql+tail)
			}
		}
		for _, distinct := range []string{"", "DISTINCT "} {
			for _, inner := range []string{"", " ORDER BY (SELECT 1 FROM in_call_order)", " ORDER BY n DESC, m"} {
				combos("SELECT STRING_AGG("+distinct+"name, ','"+inner+")", []string{" WITHIN GROUP (ORDER BY (SELECT 2 FROM within_group_order))", " FILTER (WHERE x > (SELECT 3 FROM filter_cond))",
					" OVER (PARTITION BY (SELECT 4 FROM partition_key) ORDER BY (SELECT 5 FROM window_order) ROWS BETWEEN 1 PRECEDING AND CURRENT ROW)"}, " FROM t")
			}
		}
		combos("SELECT DISTINCT a", []string{" FROM t JOIN u ON t.i = u.i", " WHERE b IN (SELECT 1 FROM w1)", " GROUP BY a, (SELECT 2 FROM w2)", " HAVING MAX(c) > (SELECT 3 FROM w3)", " WINDOW w AS (PARTITION BY (SELECT 4 FROM w4))",
			" ORDER BY (SELECT 5 FROM w5)", " LIMIT 3", " OFFSET 2", " FOR UPDATE"}, "")
		combos("INSERT INTO t (a, b)", []string{" VALUES (1, (SELECT 1 FROM v1))", " ON CONFLICT (a) DO UPDATE SET b = (SELECT 2 FROM v2) WHERE t.a > (SELECT 3 FROM v3)", " RETURNING a, (SELECT 4 FROM v4)"}, "")
		combos("INSERT INTO t (a, b) SELECT x, y FROM src", []string{" ON CONFLICT DO NOTHING", " RETURNING (SELECT 1 FROM r1)"}, "")
		combos("UPDATE t SET a = (SELECT 1 FROM s1)", []string{" FROM u", " WHERE b = (SELECT 2 FROM s2)", " RETURNING (SELECT 3 FROM s3)"}, "")
		combos("DELETE FROM t", []string{" USING u", " WHERE b = (SELECT 1 FROM d1)", " RETURNING (SELECT 2 FROM d2)"}, "")
		combos("MERGE INTO t USING u ON t.i = (SELECT 1 FROM m1)", []string{" WHEN MATCHED AND u.x > (SELECT 2 FROM m2) THEN UPDATE SET a = (SELECT 3 FROM m3)", " WHEN MATCHED THEN DELETE",
			" WHEN NOT MATCHED THEN INSERT (a) VALUES ((SELECT 4 FROM m4))"}, "")
		combos("WITH c AS (SELECT 1 FROM c1), d (x) AS (SELECT 2 FROM c2) SELECT a FROM c", []string{" UNION ALL SELECT b FROM d", " ORDER BY (SELECT 3 FROM c3)", " LIMIT 1"}, "")
		combos("SELECT CASE (SELECT 1 FROM k1) WHEN (SELECT 2 FROM k2) THEN (SELECT 3 FROM k3)", []string{" WHEN 5 THEN (SELECT 4 FROM k4)", " ELSE (SELECT 5 FROM k5)"}, " END FROM t")
		combos("SELECT a FROM t WHERE b", []string{" NOT"}, " BETWEEN (SELECT 1 FROM b1) AND (SELECT 2 FROM b2)")
		combos("CREATE TABLE t (a INT", []string{" DEFAULT (1 + 2)", " NOT NULL", " CHECK (a > (0 + 1))", " REFERENCES u (i)"}, ", b TEXT)")
	}
	fams := make([]string, 0, len(c20Families))
	for f := range c20Families {
		fams = append(fams, f)
	}
	sort.Strings(fams)
	for _, f := range fams {
		inputs = append(inputs, c20Families[f](400))
	}
	// the injection scanner is an analysis built on the traversal: a payload is reported wherever it sits
	for _, ctx := range c16Contexts {
		sql := strings.ReplaceAll(ctx.sql, "{C}", "'a' = 'a'")
		tree, err := gosqlx.Parse(sql)
		if err != nil {
			continue
		}
		res.count("scan|"+sql, true)
		if r := security.NewScanner().Scan(tree); len(r.Findings) == 0 {
			res.fail("analysis-misses:scan:"+ctx.name, "the injection scanner reports nothing for a tautology written in this position", map[string]any{"sql": truncate(sql, 400)}, nil)
		}
		ast.ReleaseAST(tree)
	}
	for i, sql := range inputs {
		tree, err := gosqlx.Parse(sql)
		if err != nil {
			res.stat("rejected")
			continue
		}
		before := len(res.Failures)
		checkTraversal(res, sql, tree)
		res.count(sql, len(tree.Statements) > 0)
		if i < 3 || (len(res.Failures) > before && len(res.Samples) < 8) {
			res.sample(map[string]any{"sql": truncate(sql, 200), "statements": len(tree.Statements)})
		}
		res.CorrCases++ // each accepted tree also validates the extracted Children() table dynamically
		ast.ReleaseAST(tree)
	}
}
