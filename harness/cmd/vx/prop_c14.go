package main

import (
	"fmt"
	"reflect"

	"github.com/ajitpratap0/GoSQLX/pkg/gosqlx"
	"github.com/ajitpratap0/GoSQLX/pkg/sql/ast"
)

func init() { props["C14"] = runC14 }

// reachable collects every Node-typed value reachable through the tree's own fields, with the
// (parent type, field) through which it is reached.
type reached struct {
	typ, dump   string
	parent, fld string
}

// reachableNodes walks the tree's own fields. `visited` (may be nil) is the set of node dumps
// seen by Inspect: below a node that Inspect missed the walk does not descend, so only the
// top-most missing node of a missing subtree is reported.
func reachableNodes(root any, visited map[string]int) []reached {
	var out []reached
	var walk func(v reflect.Value, parent, fld string, depth int, byValue bool)
	walk = func(v reflect.Value, parent, fld string, depth int, byValue bool) {
		if !v.IsValid() || depth > 5000 {
			return
		}
		switch v.Kind() {
		case reflect.Interface, reflect.Pointer:
			if v.IsNil() {
				return
			}
			walk(v.Elem(), parent, fld, depth+1, false)
		case reflect.Struct:
			t := v.Type()
			p, f := parent, fld
			node := isNodeType(t)
			if node {
				if byValue && v.IsZero() {
					return // zero value of a by-value node field: absent, not a node of the tree
				}
				d := dumpVal(v)
				out = append(out, reached{t.Name(), d, parent, fld})
				if visited != nil && visited[d] == 0 {
					return
				}
				p, f = t.Name(), ""
			}
			for i := 0; i < v.NumField(); i++ {
				fn := t.Field(i).Name
				if f != "" {
					fn = f + "." + fn
				}
				walk(v.Field(i), p, fn, depth+1, true)
			}
		case reflect.Slice, reflect.Array:
			for i := 0; i < v.Len(); i++ {
				walk(v.Index(i), parent, fld, depth+1, false)
			}
		case reflect.Map:
			for _, k := range v.MapKeys() {
				walk(v.MapIndex(k), parent, fld, depth+1, false)
			}
		}
	}
	walk(reflect.ValueOf(root), "", "", 0, false)
	return out
}

func checkTraversal(res *Result, sql string, tree *ast.AST) {
	visited := map[string]int{}
	nVisited := 0
	ast.Inspect(tree, func(n ast.Node) bool {
		if n == nil {
			return false
		}
		v := reflect.ValueOf(n)
		if v.Kind() == reflect.Pointer && v.IsNil() {
			return false
		}
		visited[dumpVal(v)]++
		nVisited++
		return true
	})
	reach := reachableNodes(tree, visited)
	reachAll := reachableNodes(tree, nil)
	reachSet := map[string]bool{}
	for _, r := range reachAll {
		reachSet[r.dump] = true
	}
	for _, r := range reach {
		if visited[r.dump] == 0 {
			key := "children-missing:" + r.parent + "." + r.fld
			res.fail(key, fmt.Sprintf("Inspect never visits the %s reachable through %s.%s", r.typ, r.parent, r.fld),
				map[string]any{"sql": sql, "node": truncate(r.dump, 300)}, nil)
		}
	}
	for d := range visited {
		if !reachSet[d] {
			res.fail("children-extra", "Inspect visits a node that is not reachable through the tree's own fields",
				map[string]any{"sql": sql, "node": truncate(d, 300)}, nil)
		}
	}
	res.statN("nodes_reachable", len(reachAll))
	res.statN("nodes_visited", nVisited)
}

func truncate(s string, n int) string {
	if len(s) > n {
		return s[:n] + "…"
	}
	return s
}

func runC14(c *runCtx) {
	res := c.res
	res.Rule = "every statement of the built-in corpus, the repository's .sql files and generated model statements that parses is traversed with ast.Inspect; the visited set is compared with the reflection-reachable node set (distinct = distinct accepted inputs with at least 2 nodes)"
	inputs := append([]string{}, builtinCorpus...)
	inputs = append(inputs, repoCorpus()...)
	g := newSQLGen(c.rng.Fork())
	for i := 0; i < c.n(3000, 60000); i++ {
		inputs = append(inputs, g.Statement())
	}
	for i, sql := range inputs {
		tree, err := gosqlx.Parse(sql)
		if err != nil {
			res.stat("rejected")
			continue
		}
		before := len(res.Failures)
		checkTraversal(res, sql, tree)
		res.count(sql, len(tree.Statements) > 0)
		if i < 3 || (len(res.Failures) > before && len(res.Samples) < 8) {
			res.sample(map[string]any{"sql": truncate(sql, 200), "statements": len(tree.Statements)})
		}
		res.CorrCases++ // each accepted tree also validates the extracted Children() table dynamically
		ast.ReleaseAST(tree)
	}
}
