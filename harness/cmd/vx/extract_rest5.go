package main

func extractRest5(l *loaded, genDir, jsonDir string) error { return nil }
