package main

func extractRest5(l *loaded, genDir, jsonDir string) error {
	vars, steps, err := extractShared(l)
	if err != nil {
		return err
	}
	if err := writeJSON(jsonDir+"/shared_state.json", map[string]any{"vars": vars, "metric_steps": steps}); err != nil {
		return err
	}
	if err := emitSharedLean(vars, steps, genDir); err != nil {
		return err
	}
	return extractRest6(l, genDir, jsonDir)
}
