package main

import (
	"fmt"
	"go/ast"
	"path/filepath"
	"sort"
	"strconv"
	"strings"
)

// lint keyword set: keys of `var sqlKeywords = map[string]bool{…}` in pkg/linter/rules/keywords
func extractLintKeywords(l *loaded) ([]string, error) {
	p := l.pkgs["pkg/linter/rules/keywords"]
	if p == nil {
		return nil, fmt.Errorf("pkg/linter/rules/keywords not loaded")
	}
	var out []string
	for _, f := range p.Syntax {
		ast.Inspect(f, func(n ast.Node) bool {
			vs, ok := n.(*ast.ValueSpec)
			if !ok || len(vs.Names) != 1 || vs.Names[0].Name != "sqlKeywords" || len(vs.Values) != 1 {
				return true
			}
			if cl, ok := vs.Values[0].(*ast.CompositeLit); ok {
				for _, e := range cl.Elts {
					if kv, ok := e.(*ast.KeyValueExpr); ok {
						if bl, ok := kv.Key.(*ast.BasicLit); ok {
							if s, err := strconv.Unquote(bl.Value); err == nil {
								out = append(out, s)
							}
						}
					}
				}
			}
			return false
		})
	}
	sort.Strings(out)
	if len(out) == 0 {
		return nil, fmt.Errorf("sqlKeywords not found")
	}
	return out, nil
}

func extractRest7(l *loaded, genDir, jsonDir string) error {
	kws, err := extractLintKeywords(l)
	if err != nil {
		return err
	}
	if err := writeJSON(jsonDir+"/lint_keywords.json", kws); err != nil {
		return err
	}
	var b strings.Builder
	b.WriteString(genHeader)
	fmt.Fprintf(&b, "namespace GoSQLXModel.Gen\n\n/-- keys of sqlKeywords in pkg/linter/rules/keywords/keyword_case.go -/\ndef lintKeywords : List String := %s\n\nend GoSQLXModel.Gen\n", leanStrList(kws))
	if _, err := writeIfChanged(filepath.Join(genDir, "LintKeywords.lean"), []byte(b.String())); err != nil {
		return err
	}
	return extractRest8(l, genDir, jsonDir)
}
