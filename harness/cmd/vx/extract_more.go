package main

import (
	"bufio"
	"encoding/json"
	"fmt"
	"go/ast"
	"go/types"
	"os"
	"path/filepath"
	"sort"
	"strings"
)

// producedTypes: named struct types of pkg/sql/ast that code in pkg/sql/parser constructs
// (composite literals, ast.Get* / ast.New* calls), closed under by-value struct fields.
func extractProduced(l *loaded, at *AstTables) ([]string, [][2]string, error) {
	pp := l.pkgs["pkg/sql/parser"]
	ap := l.pkgs["pkg/sql/ast"]
	if pp == nil || ap == nil {
		return nil, nil, fmt.Errorf("parser/ast packages not loaded")
	}
	set := map[string]bool{}
	assigned := map[[2]string]bool{}
	namedOf := func(t types.Type) string {
		for {
			if p, ok := t.(*types.Pointer); ok {
				t = p.Elem()
				continue
			}
			break
		}
		if n, ok := t.(*types.Named); ok && n.Obj().Pkg() == ap.Types {
			return n.Obj().Name()
		}
		return ""
	}
	addType := func(t types.Type) {
		for {
			if p, ok := t.(*types.Pointer); ok {
				t = p.Elem()
				continue
			}
			break
		}
		if n, ok := t.(*types.Named); ok && n.Obj().Pkg() == ap.Types {
			if _, ok := n.Underlying().(*types.Struct); ok {
				set[n.Obj().Name()] = true
			}
		}
	}
	for _, f := range pp.Syntax {
		ast.Inspect(f, func(n ast.Node) bool {
			switch x := n.(type) {
			case *ast.CompositeLit:
				if tv, ok := pp.TypesInfo.Types[x]; ok {
					addType(tv.Type)
					if tn := namedOf(tv.Type); tn != "" {
						for _, el := range x.Elts {
							if kv, ok := el.(*ast.KeyValueExpr); ok {
								if id, ok := kv.Key.(*ast.Ident); ok {
									assigned[[2]string{tn, id.Name}] = true
								}
							}
						}
					}
				}
			case *ast.AssignStmt:
				for _, lhs := range x.Lhs {
					if se, ok := lhs.(*ast.SelectorExpr); ok {
						// record every suffix chain: x.A.B = v assigns ("TypeOf(x.A)","B") and ("TypeOf(x)","A.B")
						parts := []string{}
						var cur ast.Expr = se
						for {
							s2, ok := cur.(*ast.SelectorExpr)
							if !ok {
								break
							}
							sel := pp.TypesInfo.Selections[s2]
							if sel == nil || sel.Kind() != types.FieldVal {
								break
							}
							parts = append([]string{s2.Sel.Name}, parts...)
							if tn := namedOf(sel.Recv()); tn != "" {
								assigned[[2]string{tn, strings.Join(parts, ".")}] = true
							}
							cur = s2.X
						}
					}
				}
			case *ast.CallExpr:
				if se, ok := x.Fun.(*ast.SelectorExpr); ok {
					if fn, ok := pp.TypesInfo.Uses[se.Sel].(*types.Func); ok && fn.Pkg() == ap.Types {
						sig := fn.Type().(*types.Signature)
						for i := 0; i < sig.Results().Len(); i++ {
							addType(sig.Results().At(i).Type())
						}
					}
				}
			}
			return true
		})
	}
	// closure under by-value (non-pointer, non-repeated) struct fields
	byName := map[string]SchemaType{}
	for _, s := range at.Schema {
		byName[s.Name] = s
	}
	changed := true
	for changed {
		changed = false
		for n := range set {
			for _, f := range byName[n].Fields {
				if f.Kind == "struct" && !f.Ptr && !f.Rep && !set[f.Elem] {
					set[f.Elem] = true
					changed = true
				}
			}
		}
	}
	// a whole helper struct assigned ("T","A") assigns every flattened sub-path "A.B" of T
	for _, st := range at.Schema {
		for _, f := range st.Fields {
			parts := strings.Split(f.Name, ".")
			for i := 1; i < len(parts); i++ {
				if assigned[[2]string{st.Name, strings.Join(parts[:i], ".")}] {
					assigned[[2]string{st.Name, f.Name}] = true
				}
			}
		}
	}
	var as [][2]string
	for k := range assigned {
		as = append(as, k)
	}
	sort.Slice(as, func(i, j int) bool { return as[i][0]+"."+as[i][1] < as[j][0]+"."+as[j][1] })
	return sortedKeys(set), as, nil
}

// KnownFinding is one line of /verif/KNOWN_FINDINGS.jsonl
type KnownFinding struct {
	Property string `json:"property"`
	Status   string `json:"status"` // "known" | "fixed"
	Key      string `json:"key"`    // canonical failure descriptor
	What     string `json:"what"`
	Witness  any    `json:"witness,omitempty"`
	Site     string `json:"site,omitempty"`
	Lean     string `json:"lean_theorem,omitempty"`
	Commit   string `json:"commit,omitempty"`
	Note     string `json:"note,omitempty"`
}

func loadKnown() ([]KnownFinding, error) {
	f, err := os.Open(verifDir + "/KNOWN_FINDINGS.jsonl")
	if err != nil {
		if os.IsNotExist(err) {
			return nil, nil
		}
		return nil, err
	}
	defer f.Close()
	var out []KnownFinding
	sc := bufio.NewScanner(f)
	sc.Buffer(make([]byte, 1<<20), 1<<24)
	for sc.Scan() {
		line := strings.TrimSpace(sc.Text())
		if line == "" || strings.HasPrefix(line, "#") {
			continue
		}
		var k KnownFinding
		if err := json.Unmarshal([]byte(line), &k); err != nil {
			return nil, fmt.Errorf("KNOWN_FINDINGS.jsonl: %v: %s", err, line)
		}
		out = append(out, k)
	}
	return out, sc.Err()
}

// emitKnownLean writes the table-shaped known findings (keys of the form "<kind>:<A>.<B>")
// so that allowance obligations (`offenders ⊆ known`) can be re-checked by the kernel.
func emitKnownLean(known []KnownFinding, dir string) error {
	groups := map[string][][2]string{}
	kinds := []string{"children-missing", "dirty-after-put", "unguarded-cycle", "flatten-site", "unguarded-global", "instance-carryover", "nonatomic-write", "bare-error-site", "wrong-family-site"}
	for _, k := range known {
		if k.Status != "known" {
			continue
		}
		i := strings.Index(k.Key, ":")
		if i < 0 {
			continue
		}
		kind, rest := k.Key[:i], k.Key[i+1:]
		j := strings.LastIndex(rest, ".")
		a, b := rest, ""
		if j >= 0 {
			a, b = rest[:j], rest[j+1:]
		}
		groups[kind] = append(groups[kind], [2]string{a, b})
	}
	var b strings.Builder
	b.WriteString("-- GENERATED by `vx extract` from /verif/KNOWN_FINDINGS.jsonl (status = known). Do not edit.\n")
	b.WriteString("namespace GoSQLXModel.Gen.Known\n\n")
	for _, kind := range kinds {
		name := strings.ReplaceAll(kind, "-", "_")
		xs := groups[kind]
		sort.Slice(xs, func(i, j int) bool { return xs[i][0]+"."+xs[i][1] < xs[j][0]+"."+xs[j][1] })
		ps := make([]string, len(xs))
		for i, x := range xs {
			ps[i] = fmt.Sprintf("(%s, %s)", leanStr(x[0]), leanStr(x[1]))
		}
		fmt.Fprintf(&b, "def %s : List (String × String) := [%s]\n", name, strings.Join(ps, ", "))
	}
	b.WriteString("\nend GoSQLXModel.Gen.Known\n")
	_, err := writeIfChanged(filepath.Join(dir, "Known.lean"), []byte(b.String()))
	return err
}

func extractMore(l *loaded, genDir, jsonDir string) error {
	var at AstTables
	raw, err := os.ReadFile(jsonDir + "/ast_tables.json")
	if err != nil {
		return err
	}
	if err := json.Unmarshal(raw, &at); err != nil {
		return err
	}
	prod, assigned, err := extractProduced(l, &at)
	if err != nil {
		return err
	}
	if err := writeJSON(jsonDir+"/produced_types.json", map[string]any{"types": prod, "assigned_fields": assigned}); err != nil {
		return err
	}
	var b strings.Builder
	b.WriteString(genHeader)
	b.WriteString("namespace GoSQLXModel.Gen\n\n/-- struct types of pkg/sql/ast that pkg/sql/parser constructs (closed under by-value fields) -/\n")
	fmt.Fprintf(&b, "def producedTypes : List String := %s\n\n", leanStrList(prod))
	b.WriteString("/-- (type, field) pairs that pkg/sql/parser assigns (composite-literal keys and field assignments) -/\ndef parserAssigned : List (String × String) := [")
	for i, a := range assigned {
		if i > 0 {
			b.WriteString(", ")
		}
		fmt.Fprintf(&b, "(%s, %s)", leanStr(a[0]), leanStr(a[1]))
	}
	b.WriteString("]\n\nend GoSQLXModel.Gen\n")
	if _, err := writeIfChanged(filepath.Join(genDir, "Produced.lean"), []byte(b.String())); err != nil {
		return err
	}
	known, err := loadKnown()
	if err != nil {
		return err
	}
	if err := emitKnownLean(known, genDir); err != nil {
		return err
	}
	return extractRest(l, genDir, jsonDir)
}
