package main

import (
	"encoding/hex"
	"fmt"
	"os"
	"reflect"
	"regexp"
	"strings"

	"github.com/ajitpratap0/GoSQLX/pkg/gosqlx"
	"github.com/ajitpratap0/GoSQLX/pkg/models"
	"github.com/ajitpratap0/GoSQLX/pkg/sql/ast"
	"github.com/ajitpratap0/GoSQLX/pkg/sql/parser"
	"github.com/ajitpratap0/GoSQLX/pkg/sql/token"
	"github.com/ajitpratap0/GoSQLX/pkg/sql/tokenizer"
)

func init() { props["C03"] = runC03 }

var wordRe = regexp.MustCompile(`[A-Za-z_]+|'[^']*'`)

// blanksOutsideQuotes: every blank outside a quoted string replaced by sep
func blanksOutsideQuotes(s, sep string) string {
	var b strings.Builder
	inQ := false
	for i := 0; i < len(s); i++ {
		if s[i] == '\'' {
			inQ = !inQ
		}
		if s[i] == ' ' && !inQ {
			b.WriteString(sep)
		} else {
			b.WriteByte(s[i])
		}
	}
	return b.String()
}

// lowerKeywordsOnly: every unquoted word in lower case (keywords and, harmlessly, the lower-case identifiers of the catalogue)
func lowerKeywordsOnly(s string) string {
	return wordRe.ReplaceAllStringFunc(s, func(w string) string {
		if strings.HasPrefix(w, "'") {
			return w
		}
		return strings.ToLower(w)
	})
}

// canonFnRaw: function names are written as spelled (the Lean driver's canonical form) instead of upper-cased
var canonFnRaw bool

// realExpr: canonical text of a real expression, in the format of GExpr.canon
func realExpr(e ast.Expression) string {
	switch x := e.(type) {
	case nil:
		return "_"
	case *ast.Identifier:
		if x == nil {
			return "_"
		}
		if x.Table != "" {
			return "id(" + x.Table + "." + x.Name + ")"
		}
		return "id(" + x.Name + ")"
	case *ast.LiteralValue:
		if x == nil {
			return "_"
		}
		switch strings.ToLower(x.Type) {
		case "int", "integer", "float", "number", "numeric":
			return "num(" + fmt.Sprint(x.Value) + ")"
		case "string":
			return "str(" + fmt.Sprint(x.Value) + ")"
		case "bool", "boolean":
			return "bool(" + strings.ToUpper(fmt.Sprint(x.Value)) + ")"
		case "null":
			return "null"
		}
		return "lit?" + x.Type + "(" + fmt.Sprint(x.Value) + ")"
	case *ast.BinaryExpression:
		if x == nil {
			return "_"
		}
		op := strings.ToUpper(x.Operator)
		switch op {
		case "IS NULL":
			n := ""
			if x.Not {
				n = "!"
			}
			return n + "isnull(" + realExpr(x.Left) + ")"
		case "IS NOT NULL":
			return "!isnull(" + realExpr(x.Left) + ")"
		case "LIKE", "ILIKE":
			n := ""
			if x.Not {
				n = "!"
			}
			return n + strings.ToLower(op) + "(" + realExpr(x.Left) + "," + realExpr(x.Right) + ")"
		case "NOT":
			if x.Right == nil {
				return "not(" + realExpr(x.Left) + ")"
			}
		}
		s := "(" + realExpr(x.Left) + " " + op + " " + realExpr(x.Right) + ")"
		if x.Not {
			return "not" + s
		}
		return s
	case *ast.UnaryExpression:
		if x == nil {
			return "_"
		}
		if x.Operator == ast.Not {
			return "not(" + realExpr(x.Expr) + ")"
		}
		return "unary" + x.Operator.String() + "(" + realExpr(x.Expr) + ")"
	case *ast.BetweenExpression:
		n := ""
		if x.Not {
			n = "!"
		}
		return n + "between(" + realExpr(x.Expr) + "," + realExpr(x.Lower) + "," + realExpr(x.Upper) + ")"
	case *ast.InExpression:
		n := ""
		if x.Not {
			n = "!"
		}
		if x.Subquery != nil {
			return n + "insub(" + realExpr(x.Expr) + "," + realStmt(x.Subquery) + ")"
		}
		xs := []string{realExpr(x.Expr)}
		for _, a := range x.List {
			xs = append(xs, realExpr(a))
		}
		return n + "in(" + strings.Join(xs, ",") + ")"
	case *ast.FunctionCall:
		d := ""
		if x.Distinct {
			d = "distinct "
		}
		xs := make([]string, len(x.Arguments))
		for i, a := range x.Arguments {
			xs[i] = realExpr(a)
		}
		extra := ""
		if x.Over != nil {
			extra += " over"
		}
		if x.Filter != nil {
			extra += " filter"
		}
		name := strings.ToUpper(x.Name)
		if canonFnRaw {
			name = x.Name
		}
		if len(x.OrderBy) > 0 || len(x.WithinGroup) > 0 {
			extra += " orderby"
		}
		return "fn " + name + "(" + d + strings.Join(xs, ",") + ")" + extra
	case *ast.CaseExpression:
		s := "case(" + realExpr(x.Value) + ";"
		for _, w := range x.WhenClauses {
			s += realExpr(w.Condition) + "=>" + realExpr(w.Result) + ";"
		}
		return s + realExpr(x.ElseClause) + ")"
	case *ast.CastExpression:
		return "cast(" + realExpr(x.Expr) + " as " + strings.ToUpper(strings.ReplaceAll(x.Type, " ", "")) + ")"
	case *ast.ExistsExpression:
		return "exists(" + realStmt(x.Subquery) + ")"
	case *ast.SubqueryExpression:
		return "subq(" + realStmt(x.Subquery) + ")"
	case *ast.AliasedExpression:
		return realExpr(x.Expr) + "@@" + x.Alias
	}
	return fmt.Sprintf("?%T", e)
}

func realFrom(t ast.TableReference) string {
	if t.Subquery != nil {
		return "(" + realStmt(t.Subquery) + ")@" + t.Alias
	}
	return t.Name + "@" + t.Alias
}

// realStmt: canonical text of a real query, in the format of GSelect.canon
func realStmt(st ast.Statement) string {
	switch s := st.(type) {
	case nil:
		return "_"
	case *ast.SetOperation:
		if s == nil {
			return "_"
		}
		// a WITH clause in front of a chain of set operations is attached to the leftmost SELECT of the chain
		return realWith(leftmostWith(s)) + realSetNoWith(s)
	case *ast.SelectStatement:
		if s == nil {
			return "_"
		}
		return realWith(s.With) + realStmtNoWith(s)
	}
	return fmt.Sprintf("?%T", st)
}

func leftmostWith(st ast.Statement) *ast.WithClause {
	switch s := st.(type) {
	case *ast.SetOperation:
		if s != nil {
			return leftmostWith(s.Left)
		}
	case *ast.SelectStatement:
		if s != nil {
			return s.With
		}
	}
	return nil
}

func realSetNoWith(s *ast.SetOperation) string {
	all := ""
	if s.All {
		all = " ALL"
	}
	left := ""
	if l, ok := s.Left.(*ast.SetOperation); ok && l != nil {
		left = realSetNoWith(l)
	} else {
		left = realStmtNoWith(s.Left)
	}
	return "{" + left + " " + strings.ToUpper(s.Operator) + all + " " + realStmt(s.Right) + "}"
}

func realWith(w *ast.WithClause) string {
	if w == nil || len(w.CTEs) == 0 {
		return ""
	}
	var b strings.Builder
	b.WriteString("with[")
	for _, c := range w.CTEs {
		b.WriteString(c.Name + ":=" + realStmt(c.Statement) + ";")
	}
	b.WriteString("]")
	return b.String()
}

func realStmtNoWith(st ast.Statement) string {
	s, ok := st.(*ast.SelectStatement)
	if !ok {
		return realStmt(st)
	}
	var b strings.Builder
	b.WriteString("select")
	if s.Distinct {
		b.WriteString(" distinct")
	}
	b.WriteString("[")
	for _, c := range s.Columns {
		if a, ok := c.(*ast.AliasedExpression); ok {
			b.WriteString(realExpr(a.Expr) + "@" + a.Alias + ";")
		} else {
			b.WriteString(realExpr(c) + "@;")
		}
	}
	b.WriteString("]from[")
	for _, f := range s.From {
		b.WriteString(realFrom(f) + ";")
	}
	b.WriteString("]joins[")
	for _, j := range s.Joins {
		b.WriteString(strings.ToUpper(j.Type) + " " + realFrom(j.Right) + " on " + realExpr(j.Condition) + " using ;")
	}
	b.WriteString("]where " + realExpr(s.Where) + " group[")
	for _, g := range s.GroupBy {
		b.WriteString(realExpr(g) + ";")
	}
	b.WriteString("]having " + realExpr(s.Having) + " order[")
	for _, o := range s.OrderBy {
		n := ""
		if o.NullsFirst != nil {
			if *o.NullsFirst {
				n = "FIRST"
			} else {
				n = "LAST"
			}
		}
		b.WriteString(fmt.Sprintf("%s %v %s;", realExpr(o.Expression), !o.Ascending, n))
	}
	lim, off := -1, -1
	if s.Limit != nil {
		lim = *s.Limit
	}
	if s.Offset != nil {
		off = *s.Offset
	}
	b.WriteString(fmt.Sprintf("]limit %d offset %d", lim, off))
	if len(s.DistinctOnColumns) > 0 || len(s.Windows) > 0 || s.Fetch != nil || s.For != nil {
		b.WriteString(" +unwritten-clause")
	}
	return b.String()
}

// NOT EXISTS (...) followed by a comparison-level operator: the grammar negates the whole comparison
var notExistsOperand = regexp.MustCompile(`not\(!?(isnull|between|in|insub|like|ilike)\(exists\(|not\(\(exists\(`)

func runC03(c *runCtx) {
	res := c.res
	res.Rule = "model-grammar queries (expression trees over OR/AND/NOT/comparison/||/+-/*/% with every nesting, IS [NOT] NULL, [NOT] BETWEEN/IN list/IN sub-query/LIKE/ILIKE, function calls, CASE (simple and searched), CAST, EXISTS / NOT EXISTS / scalar sub-queries; SELECT with DISTINCT, aliases, FROM lists incl. derived tables, INNER/LEFT/RIGHT/FULL/CROSS joins, WHERE, GROUP BY, HAVING, ORDER BY with DESC and NULLS FIRST/LAST, LIMIT/OFFSET; UNION [ALL]/EXCEPT/INTERSECT; CTEs), each rendered with the parentheses precedence requires plus random redundant ones, random keyword case and layout: the statement must be accepted and the real tree, rendered to the generator's canonical form field by field, must equal the model tree; every ordered pair of binary operators in both nestings, with minimal and full parentheses (distinct = distinct rendered statements)"
	g := newSQLGen(c.rng.Fork())
	check := func(model *GSelect, sql string, class string) {
		res.count(sql, true)
		tree, err := gosqlx.Parse(sql)
		wit := map[string]any{"sql": sql}
		if err != nil {
			res.fail("rejected:"+class, "a statement of the model grammar is rejected", wit, map[string]any{"error": strings.SplitN(err.Error(), "\n", 2)[0], "model": clip(model.canon(), 400)})
			return
		}
		defer ast.ReleaseAST(tree)
		if len(tree.Statements) != 1 {
			res.fail("statement-count:"+class, "one statement was written", wit, map[string]any{"got": len(tree.Statements)})
			return
		}
		got, want := realStmt(tree.Statements[0]), model.canon()
		if got != want {
			// first difference, for the report
			i := 0
			for i < len(got) && i < len(want) && got[i] == want[i] {
				i++
			}
			lo := i - 60
			if lo < 0 {
				lo = 0
			}
			if os.Getenv("VX_VERBOSE") != "" {
				fmt.Printf("DIFF\t%s\t%s\t%s\n", clip(got[lo:], 160), clip(want[lo:], 160), sql)
			}
			if notExistsOperand.MatchString(want) {
				class = "not-exists-as-operand"
			}
			res.fail("tree-differs:"+class, "the parsed tree is not the tree the grammar prescribes", wit, map[string]any{"got": clip(got[lo:], 240), "want": clip(want[lo:], 240)})
		}
	}
	// frames: a statement with a place for a query and something written after it
	type qframe struct {
		name, sql string
		parts     func(st ast.Statement) (ast.Statement, string)
	}
	viewParts := func(st ast.Statement) (ast.Statement, string) {
		switch v := st.(type) {
		case *ast.CreateViewStatement:
			return v.Query, fmt.Sprintf("view %s replace=%v temp=%v cols=%v option=%q", v.Name, v.OrReplace, v.Temporary, v.Columns, v.WithOption)
		case *ast.CreateMaterializedViewStatement:
			d := "default"
			if v.WithData != nil {
				d = fmt.Sprint(*v.WithData)
			}
			return v.Query, fmt.Sprintf("matview %s cols=%v data=%s tablespace=%q", v.Name, v.Columns, d, v.Tablespace)
		case *ast.InsertStatement:
			oc := "none"
			if v.OnConflict != nil {
				oc = fmt.Sprintf("target=%d action=%d", len(v.OnConflict.Target), len(v.OnConflict.Action.DoUpdate))
			}
			var rs []string
			for _, r := range v.Returning {
				rs = append(rs, realExpr(r))
			}
			var q ast.Statement
			if v.Query != nil {
				q, _ = v.Query.(ast.Statement)
			}
			return q, fmt.Sprintf("insert %s cols=%d values=%d returning=%v conflict=%s dup=%v", v.TableName, len(v.Columns), len(v.Values), rs, oc, v.OnDuplicateKey != nil)
		}
		return nil, fmt.Sprintf("%T", st)
	}
	qframes := []qframe{
		{"view", "CREATE VIEW v AS {Q}", viewParts}, {"view-check-option", "CREATE VIEW v AS {Q} WITH CHECK OPTION", viewParts},
		{"view-cascaded", "CREATE OR REPLACE VIEW v (x) AS {Q} WITH CASCADED CHECK OPTION", viewParts}, {"view-local", "CREATE VIEW v AS {Q} WITH LOCAL CHECK OPTION", viewParts},
		{"matview", "CREATE MATERIALIZED VIEW m AS {Q}", viewParts}, {"matview-no-data", "CREATE MATERIALIZED VIEW m AS {Q} WITH NO DATA", viewParts},
		{"matview-data", "CREATE MATERIALIZED VIEW IF NOT EXISTS m (x) AS {Q} WITH DATA", viewParts},
		{"insert-select", "INSERT INTO x (a) {Q}", viewParts}, {"insert-select-returning", "INSERT INTO x (a) {Q} RETURNING a, b", viewParts},
		{"insert-select-conflict", "INSERT INTO x (a) {Q} ON CONFLICT DO NOTHING", viewParts}, {"insert-select-conflict-update", "INSERT INTO x (a) {Q} ON CONFLICT (a) DO UPDATE SET a = 1 RETURNING a", viewParts},
	}
	frameRest := map[string]string{}
	frameOK := map[string]bool{}
	for _, fr := range qframes {
		tree, err := gosqlx.Parse(strings.ReplaceAll(fr.sql, "{Q}", "SELECT a FROM t"))
		if err != nil || len(tree.Statements) != 1 {
			res.stat("query-frame-rejected:" + fr.name)
			continue
		}
		_, rest := fr.parts(tree.Statements[0])
		frameRest[fr.name], frameOK[fr.name] = rest, true
		ast.ReleaseAST(tree)
	}
	checkInFrames := func(model *GSelect, qsql string) {
		for _, fr := range qframes {
			if !frameOK[fr.name] {
				continue
			}
			sql := strings.ReplaceAll(fr.sql, "{Q}", qsql)
			res.count(sql, true)
			wit := map[string]any{"sql": sql, "query": qsql}
			tree, err := gosqlx.Parse(sql)
			if err != nil {
				res.fail("rejected:query-in-frame:"+fr.name, "a query the parser reads alone is rejected inside a statement that takes a query", wit, map[string]any{"error": strings.SplitN(err.Error(), "\n", 2)[0]})
				continue
			}
			if len(tree.Statements) != 1 {
				res.fail("statement-count:query-in-frame:"+fr.name, "one statement was written", wit, map[string]any{"got": len(tree.Statements)})
				ast.ReleaseAST(tree)
				continue
			}
			inner, rest := fr.parts(tree.Statements[0])
			got := "<no query>"
			if inner != nil {
				got = realStmt(inner)
			}
			if want := model.canon(); got != want || rest != frameRest[fr.name] {
				res.fail("tree-differs:query-in-frame:"+fr.name, "inside an enclosing statement the query is not read as when written alone, or what follows it does not reach the enclosing statement",
					wit, map[string]any{"query_got": clip(got, 300), "query_want": clip(want, 300), "enclosing_got": rest, "enclosing_want": frameRest[fr.name]})
			}
			ast.ReleaseAST(tree)
		}
	}
	classOf := func(s *GSelect) string {
		switch {
		case s.SetOp != "":
			return "set-operation"
		case len(s.CTEs) > 0:
			return "cte"
		case len(s.Joins) > 0:
			return "join"
		}
		return "select"
	}
	for i := 0; i < c.n(3000, 120000); i++ {
		g.reset()
		g.Plain = i%4 == 0
		q := g.Query(g.MaxDepth - 1)
		sql := g.renderSelect(q)
		if i < 3 {
			res.sample(map[string]any{"sql": sql, "model": clip(q.canon(), 300)})
		}
		check(q, sql, classOf(q))
	}
	// every ordered pair of binary operators, both nestings, minimal and full parentheses
	ops := []string{"OR", "AND", "=", "<>", "<", ">=", "||", "+", "-", "*", "/", "%"}
	id := func(n string) *GExpr { return &GExpr{K: "ident", Name: n} }
	for _, o1 := range ops {
		for _, o2 := range ops {
			for nest := 0; nest < 2; nest++ {
				var e *GExpr
				if nest == 0 {
					e = &GExpr{K: "bin", Op: o2, A: []*GExpr{{K: "bin", Op: o1, A: []*GExpr{id("a"), id("b")}}, id("c")}}
				} else {
					e = &GExpr{K: "bin", Op: o1, A: []*GExpr{id("a"), {K: "bin", Op: o2, A: []*GExpr{id("b"), id("c")}}}}
				}
				for _, plain := range []bool{true, false} {
					g.reset()
					g.Plain = plain
					q := &GSelect{Cols: []GCol{{E: id("x")}}, From: []GFrom{{Table: "t"}}, Where: e, Limit: -1, Offset: -1}
					check(q, g.renderSelect(q), "operator-pair")
				}
			}
		}
	}
	// the clause catalogue: statements of the rest of the documented surface (locking, FETCH, windows and frames,
	// aggregate modifiers, DISTINCT ON, grouping sets, join kinds, LATERAL, CTE modifiers, set operations, RETURNING,
	// ON CONFLICT / ON DUPLICATE KEY, MERGE, the DDL statements, casts, arrays, JSON operators, …) with the reviewed
	// dump of the tree the grammar prescribes (every written clause, modifier, name and literal in its field, nothing
	// else); each statement is also read in lower case, with doubled blanks, with line breaks and with a comment
	// after every word: the tree must be the same up to the letter case of keywords
	for _, e := range clauseCorpus() {
		sqlText, want := e[0], e[1]
		variants := []string{sqlText, lowerKeywordsOnly(sqlText), blanksOutsideQuotes(sqlText, "  "), blanksOutsideQuotes(sqlText, "\n"), blanksOutsideQuotes(sqlText, " /* c */ "), sqlText + ";", "  " + sqlText + " -- tail"}
		for vi, v := range variants {
			res.count("clause|"+v, true)
			tree, err := gosqlx.Parse(v)
			if err != nil {
				res.fail("rejected:clause-catalogue", "a statement of the documented surface is rejected", map[string]any{"sql": v}, map[string]any{"error": strings.SplitN(err.Error(), "\n", 2)[0]})
				continue
			}
			got := compactDump(reflect.ValueOf(tree.Statements))
			ast.ReleaseAST(tree)
			same := got == want
			if vi == 1 {
				same = strings.EqualFold(got, want)
			}
			if !same {
				k := 0
				for k < len(got) && k < len(want) && got[k] == want[k] {
					k++
				}
				lo := k - 50
				if lo < 0 {
					lo = 0
				}
				res.fail("tree-differs:clause-catalogue:"+strings.ToLower(strings.SplitN(sqlText, " ", 2)[0]), "the parsed tree is not the tree the grammar prescribes", map[string]any{"sql": v},
					map[string]any{"got": clip(got[lo:], 260), "want": clip(want[lo:], 260)})
			}
		}
	}
	// every combination of the optional clauses of a query, in every position a query can stand in
	{
		idn := func(n string) *GExpr { return &GExpr{K: "ident", Name: n} }
		cmp := func(a string, n string) *GExpr {
			return &GExpr{K: "bin", Op: ">", A: []*GExpr{idn(a), {K: "num", Name: n}}}
		}
		for mask := 0; mask < 128; mask++ {
			mk := func(tbl string) *GSelect {
				q := &GSelect{Cols: []GCol{{E: idn("a")}}, From: []GFrom{{Table: tbl}}, Limit: -1, Offset: -1}
				q.Distinct = mask&1 != 0
				if mask&2 != 0 {
					q.Where = cmp("b", "1")
				}
				if mask&4 != 0 {
					q.GroupBy = []*GExpr{idn("a"), idn("c")}
				}
				if mask&8 != 0 {
					q.Having = cmp("a", "2")
				}
				if mask&16 != 0 {
					q.OrderBy = []GOrder{{E: idn("a"), Desc: true}, {E: idn("c"), Nulls: "LAST"}}
				}
				if mask&32 != 0 {
					q.Limit = []int{5, 0, 1, 25}[(mask>>1)%4] // the written number, zero included
				}
				if mask&64 != 0 {
					q.Offset = []int{3, 0, 0, 1}[(mask>>2)%4]
				}
				return q
			}
			{
				// the same query inside every statement that takes a query and goes on after it: the query is read as
				// when written alone, and what follows it belongs to the enclosing statement
				g.reset()
				g.Plain = true
				q := mk("t")
				checkInFrames(q, g.renderSelect(q))
			}
			for _, plain := range []bool{true, false} {
				g.reset()
				g.Plain = plain
				top := mk("t")
				check(top, g.renderSelect(top), "clause-combination")
				inner := mk("u")
				inner.OrderBy, inner.Limit, inner.Offset = nil, -1, -1
				if inner.Distinct || inner.Where != nil || inner.GroupBy != nil || inner.Having != nil {
					// as a derived table, a scalar sub-query, an IN sub-query, a CTE body and a set-operation arm
					derived := &GSelect{Cols: []GCol{{E: idn("a")}}, From: []GFrom{{Sub: inner, Alias: "d"}}, Limit: -1, Offset: -1}
					check(derived, g.renderSelect(derived), "clause-combination:derived")
					scalar := &GSelect{Cols: []GCol{{E: &GExpr{K: "subq", Sub: inner}}}, From: []GFrom{{Table: "t"}}, Limit: -1, Offset: -1}
					check(scalar, g.renderSelect(scalar), "clause-combination:scalar")
					insub := &GSelect{Cols: []GCol{{E: idn("a")}}, From: []GFrom{{Table: "t"}}, Where: &GExpr{K: "insub", A: []*GExpr{idn("a")}, Sub: inner}, Limit: -1, Offset: -1}
					check(insub, g.renderSelect(insub), "clause-combination:in-subquery")
					cte := &GSelect{Cols: []GCol{{E: idn("a")}}, From: []GFrom{{Table: "c"}}, Limit: -1, Offset: -1, CTEs: []GCTE{{Name: "c", Body: inner}}}
					check(cte, g.renderSelect(cte), "clause-combination:cte")
					arm := &GSelect{SetOp: "UNION", SetLeft: mk("t"), SetRight: inner, Limit: -1, Offset: -1}
					arm.SetLeft.OrderBy, arm.SetLeft.Limit, arm.SetLeft.Offset = nil, -1, -1
					check(arm, g.renderSelect(arm), "clause-combination:set-operation")
				}
			}
		}
	}
	// chains of set operations, with and without a WITH clause in front: UNION and EXCEPT associate to the left,
	// INTERSECT binds tighter (standard precedence); every written arm, operator, ALL flag and CTE appears
	{
		setOps := []string{"UNION", "EXCEPT", "INTERSECT"}
		arm := func(t string) *GSelect {
			return &GSelect{Cols: []GCol{{E: &GExpr{K: "ident", Name: "a"}}}, From: []GFrom{{Table: t}}, Limit: -1, Offset: -1}
		}
		for _, op1 := range setOps {
			for _, op2 := range setOps {
				for _, all1 := range []bool{false, true} {
					for _, withCTE := range []bool{false, true} {
						for _, arms := range []int{3, 4} {
							g.reset()
							g.Plain = true
							a, b, c3 := arm("t1"), arm("t2"), arm("t3")
							var top *GSelect
							if op2 == "INTERSECT" && op1 != "INTERSECT" {
								top = &GSelect{SetOp: op1, SetAll: all1 && op1 == "UNION", SetLeft: a, SetRight: &GSelect{SetOp: op2, SetLeft: b, SetRight: c3, Limit: -1, Offset: -1}, Limit: -1, Offset: -1}
							} else {
								top = &GSelect{SetOp: op2, SetLeft: &GSelect{SetOp: op1, SetAll: all1 && op1 == "UNION", SetLeft: a, SetRight: b, Limit: -1, Offset: -1}, SetRight: c3, Limit: -1, Offset: -1}
							}
							sql := "SELECT a FROM t1 " + op1
							if all1 && op1 == "UNION" {
								sql += " ALL"
							}
							sql += " SELECT a FROM t2 " + op2 + " SELECT a FROM t3"
							if arms == 4 {
								// one more arm with the first operator again: left-associated on top (or below an INTERSECT group)
								d4 := arm("t4")
								if op1 == "INTERSECT" && op2 != "INTERSECT" {
									// t1 I t2 op2 t3 I t4  =  (t1 I t2) op2 (t3 I t4)
									top.SetRight = &GSelect{SetOp: "INTERSECT", SetLeft: c3, SetRight: d4, Limit: -1, Offset: -1}
								} else if op2 == "INTERSECT" && op1 != "INTERSECT" {
									// t1 op1 t2 I t3 op1 t4 = (t1 op1 (t2 I t3)) op1 t4
									top = &GSelect{SetOp: op1, SetLeft: top, SetRight: d4, Limit: -1, Offset: -1}
								} else {
									top = &GSelect{SetOp: op1, SetLeft: top, SetRight: d4, Limit: -1, Offset: -1}
								}
								sql += " " + op1 + " SELECT a FROM t4"
							}
							if withCTE {
								top.CTEs = []GCTE{{Name: "c", Body: arm("u")}}
								sql = "WITH c AS (SELECT a FROM u) " + sql
							}
							class := "set-operation-chain"
							// left-to-right reading differs from the standard one exactly when an INTERSECT follows another operator
							if (op2 == "INTERSECT" && op1 != "INTERSECT") || (arms == 4 && op1 == "INTERSECT" && op2 != "INTERSECT") {
								class = "set-operation-precedence"
							}
							check(top, sql, class)
						}
					}
				}
			}
		}
	}
	// column constraints compose: a column definition with constraints c1 c2 [c3] carries exactly the constraints that
	// each of them yields when written alone, in the written order (CREATE TABLE and ALTER TABLE ... ADD COLUMN)
	{
		cons := []string{"NOT NULL", "NULL", "UNIQUE", "PRIMARY KEY", "DEFAULT 0", "DEFAULT 'x'", "DEFAULT (1 + 2)", "DEFAULT now()", "DEFAULT TRUE", "DEFAULT NULL",
			"DEFAULT a", "CHECK (a > 0)", "REFERENCES u (id)", "REFERENCES u (id) ON DELETE CASCADE", "AUTO_INCREMENT"}
		frames := []struct{ name, pre, post string }{{"create-table", "CREATE TABLE t (a INT ", ")"}, {"create-table-second-column", "CREATE TABLE t (z TEXT, a INT ", ", y INT)"}, {"alter-add-column", "ALTER TABLE t ADD COLUMN a INT ", ""}}
		dumpCons := func(sql string) ([]string, bool) {
			tree, err := gosqlx.Parse(sql)
			if err != nil {
				return nil, false
			}
			defer ast.ReleaseAST(tree)
			var out []string
			for _, r := range reachableNodes(tree) {
				if r.typ == "ColumnDef" && r.val.IsValid() {
					v := r.val
					for v.Kind() == reflect.Pointer || v.Kind() == reflect.Interface {
						v = v.Elem()
					}
					if v.Kind() == reflect.Struct && v.FieldByName("Name").IsValid() && v.FieldByName("Name").String() == "a" {
						cs := v.FieldByName("Constraints")
						for i := 0; i < cs.Len(); i++ {
							out = append(out, compactDump(cs.Index(i)))
						}
					}
				}
			}
			return out, true
		}
		for _, fr := range frames {
			single := map[string][]string{}
			for _, c1 := range cons {
				if d, ok := dumpCons(fr.pre + c1 + fr.post); ok && len(d) == 1 {
					single[c1] = d
				} else {
					res.stat("constraint-alone-not-one:" + fr.name)
				}
			}
			var seqs [][]string
			for _, c1 := range cons {
				for _, c2 := range cons {
					seqs = append(seqs, []string{c1, c2})
				}
			}
			for i := 0; i < c.n(150, 3000); i++ {
				seqs = append(seqs, []string{g.r.Pick(cons), g.r.Pick(cons), g.r.Pick(cons)})
			}
			for _, sq := range seqs {
				var want []string
				okAll := true
				for _, x := range sq {
					d, ok := single[x]
					if !ok {
						okAll = false
						break
					}
					want = append(want, d...)
				}
				if !okAll {
					continue
				}
				sql := fr.pre + strings.Join(sq, " ") + fr.post
				got, ok := dumpCons(sql)
				res.count("constraints|"+sql, true)
				if !ok {
					res.stat("constraint-sequence-rejected:" + fr.name)
					continue
				}
				if strings.Join(got, " ; ") != strings.Join(want, " ; ") {
					res.fail("tree-differs:column-constraints:"+fr.name, "a column definition does not carry exactly the constraints written, each as it is read when written alone",
						map[string]any{"sql": sql}, map[string]any{"got": got, "want": want})
				}
			}
		}
	}
	g.Plain = false
	// expression ladder: the Lean model (driver op expr) against parseExpression on EOF-terminated token lists
	drv := c.driver()
	tokPayload := func(ts []token.Token) string {
		xs := make([]string, len(ts))
		for i, t := range ts {
			xs[i] = fmt.Sprintf("%d:%s", int(t.Type), hex.EncodeToString([]byte(t.Literal)))
		}
		return strings.Join(xs, " ")
	}
	exprCorr := func(ts []token.Token, origin string) {
		if drv == nil || len(ts) == 0 || ts[len(ts)-1].Type != models.TokenTypeEOF {
			return
		}
		ans, derr := drv.Ask("expr", tokPayload(ts))
		if derr != nil {
			return
		}
		if ans == "UNSUPPORTED" {
			res.stat("expr-model-unsupported")
			return
		}
		res.CorrCases++
		e, err, pos := parser.VerifExprAt(append([]token.Token{}, ts...), 0)
		real := ""
		if err != nil {
			real = "ERR " + errCode(err)
		} else {
			canonFnRaw = true
			real = fmt.Sprintf("OK %s %d", realExpr(e), len(ts)-pos)
			canonFnRaw = false
		}
		if real != ans {
			var lits []string
			for _, t := range ts {
				lits = append(lits, t.Literal)
			}
			res.corrFail("expr-model", "Lean expression ladder differs from parseExpression", map[string]any{"tokens": strings.Join(lits, " "), "origin": origin}, map[string]any{"model": clip(ans, 300), "real": clip(real, 300)})
		}
	}
	toToks := func(sql string) []token.Token {
		tk, _ := tokenizer.New()
		mt, err := tk.Tokenize([]byte(sql))
		if err != nil {
			return nil
		}
		cr, err := parser.VerifConvert(mt)
		if err != nil {
			return nil
		}
		return cr.Tokens
	}
	var coreExpr func(d int) *GExpr
	coreExpr = func(d int) *GExpr {
		if d <= 0 || g.r.Intn(5) == 0 {
			if g.r.Chance(55) {
				return &GExpr{K: "ident", Name: g.r.Pick(g.cols)}
			}
			return g.literal()
		}
		switch g.r.Intn(13) {
		case 8:
			return &GExpr{K: "isnull", Not: g.r.Bool(), A: []*GExpr{coreExpr(d - 1)}}
		case 9:
			return &GExpr{K: "between", Not: g.r.Bool(), A: []*GExpr{coreExpr(d - 1), coreExpr(d - 1), coreExpr(d - 1)}}
		case 10:
			return &GExpr{K: "like", Op: g.r.Pick([]string{"LIKE", "ILIKE"}), Not: g.r.Bool(), A: []*GExpr{coreExpr(d - 1), coreExpr(d - 1)}}
		case 11:
			xs := []*GExpr{coreExpr(d - 1)}
			for k := 0; k < 1+g.r.Intn(3); k++ {
				xs = append(xs, coreExpr(d-1))
			}
			return &GExpr{K: "inlist", Not: g.r.Bool(), A: xs}
		case 12:
			var xs []*GExpr
			for k := 0; k < g.r.Intn(4); k++ {
				xs = append(xs, coreExpr(d-1))
			}
			return &GExpr{K: "func", Op: g.r.Pick([]string{"f", "COALESCE", "lower", "Abs", "match", "nullif"}), A: xs}
		case 0:
			return &GExpr{K: "not", A: []*GExpr{coreExpr(d - 1)}}
		case 1, 2:
			return &GExpr{K: "bin", Op: g.r.Pick([]string{"AND", "OR"}), A: []*GExpr{coreExpr(d - 1), coreExpr(d - 1)}}
		case 3, 4:
			return &GExpr{K: "bin", Op: g.r.Pick(cmpOps), A: []*GExpr{coreExpr(d - 1), coreExpr(d - 1)}}
		default:
			return &GExpr{K: "bin", Op: g.r.Pick(arithOps), A: []*GExpr{coreExpr(d - 1), coreExpr(d - 1)}}
		}
	}
	for i := 0; i < c.n(4000, 150000); i++ {
		g.reset()
		g.Plain = i%3 == 0
		e := coreExpr(1 + g.r.Intn(5))
		sql := g.renderExpr(e, 1)
		ts := toToks(sql)
		if ts == nil {
			continue
		}
		res.count("expr:"+sql, true)
		exprCorr(ts, "rendered")
		// the oracle for the expression alone: whole list consumed up to EOF, tree = model
		if ex, err, pos := parser.VerifExprAt(append([]token.Token{}, ts...), 0); err != nil || pos != len(ts)-1 || realExpr(ex) != e.canon() {
			got := "error"
			if err == nil {
				got = realExpr(ex)
			}
			res.fail("tree-differs:expression", "parseExpression does not return the model tree for a rendered model expression", map[string]any{"sql": sql}, map[string]any{"got": clip(got, 240), "want": clip(e.canon(), 240)})
		}
		// corrupted token lists (still EOF-terminated)
		for k := 0; k < 2; k++ {
			m := append([]token.Token{}, ts[:len(ts)-1]...)
			if len(m) == 0 {
				break
			}
			j := g.r.Intn(len(m))
			switch g.r.Intn(4) {
			case 0:
				m = append(m[:j], m[j+1:]...)
			case 1:
				m = append(m[:j+1], m[j:]...)
			case 2:
				m[j] = ts[g.r.Intn(len(ts)-1)]
			default:
				m = m[:j]
			}
			exprCorr(append(m, token.Token{Type: models.TokenTypeEOF}), "corrupted")
		}
	}
	// the full expression grammar of the generator (the model answers UNSUPPORTED where it does not reach)
	for i := 0; i < c.n(2000, 60000); i++ {
		g.reset()
		g.Plain = i%3 == 0
		if ts := toToks(g.renderExpr(g.Expr(1+g.r.Intn(4)), 1)); ts != nil {
			exprCorr(ts, "full-grammar")
		}
	}
	// deep parentheses and NOT chains around the depth limit
	for _, d := range []int{1, 50, 98, 99, 100, 101, 150} {
		exprCorr(toToks(strings.Repeat("(", d)+"a"+strings.Repeat(")", d)), "deep-paren")
		exprCorr(toToks(strings.Repeat("NOT ", d)+"a"), "deep-not")
		exprCorr(toToks(strings.Repeat("(NOT ", d)+"a"+strings.Repeat(")", d)), "deep-paren-not")
	}
	// DML: written table, columns, value / assignment / condition expressions, RETURNING
	exprs := func(n, d int) ([]*GExpr, []string, string) {
		var es []*GExpr
		var rendered, canon []string
		for i := 0; i < n; i++ {
			e := g.Expr(d)
			es = append(es, e)
			rendered = append(rendered, g.renderExpr(e, 1))
			canon = append(canon, e.canon())
		}
		return es, rendered, strings.Join(canon, ";")
	}
	realList := func(xs []ast.Expression) string {
		var c []string
		for _, x := range xs {
			c = append(c, realExpr(x))
		}
		return strings.Join(c, ";")
	}
	for i := 0; i < c.n(1200, 40000); i++ {
		g.reset()
		g.Plain = i%3 == 0
		tbl := g.r.Pick(g.tables)
		if g.r.Chance(25) {
			tbl = "sch." + tbl
		}
		var sql, want, class string
		ret := ""
		retCanon := ""
		if g.r.Chance(30) {
			_, r, cn := exprs(1+g.r.Intn(2), 1)
			ret, retCanon = " "+g.kw("RETURNING")+" "+strings.Join(r, ", "), cn
		}
		switch i % 4 {
		case 0: // INSERT ... VALUES (multi-row)
			class = "insert-values"
			n := 1 + g.r.Intn(3)
			cols := make([]string, n)
			for k := range cols {
				cols[k] = g.cols[(k*3+g.r.Intn(3))%len(g.cols)]
			}
			var rows, rowsCanon []string
			for r := 0; r < 1+g.r.Intn(3); r++ {
				_, rr, cn := exprs(n, 1)
				rows = append(rows, "("+strings.Join(rr, ", ")+")")
				rowsCanon = append(rowsCanon, cn)
			}
			sql = g.kw("INSERT") + " " + g.kw("INTO") + " " + tbl + " (" + strings.Join(cols, ", ") + ") " + g.kw("VALUES") + " " + strings.Join(rows, ", ") + ret
			want = "insert " + tbl + " cols[" + strings.Join(cols, ";") + "] rows[" + strings.Join(rowsCanon, "|") + "] query _ returning[" + retCanon + "]"
		case 1: // INSERT ... SELECT
			class = "insert-select"
			q := g.simpleSelect(2)
			col := g.r.Pick(g.cols)
			sql = g.kw("INSERT") + " " + g.kw("INTO") + " " + tbl + " (" + col + ") " + g.renderSelect(q) + ret
			want = "insert " + tbl + " cols[" + col + "] rows[] query " + q.canon() + " returning[" + retCanon + "]"
		case 2: // UPDATE
			class = "update"
			n := 1 + g.r.Intn(3)
			var sets, setsCanon []string
			for k := 0; k < n; k++ {
				col := g.cols[(k*3+g.r.Intn(3))%len(g.cols)]
				e := g.Expr(2)
				sets = append(sets, col+" = "+g.renderExpr(e, 1))
				setsCanon = append(setsCanon, col+":="+e.canon())
			}
			sql = g.kw("UPDATE") + " " + tbl + " " + g.kw("SET") + " " + strings.Join(sets, ", ")
			wc := "_"
			if g.r.Chance(80) {
				w := g.Expr(3)
				sql += " " + g.kw("WHERE") + " " + g.renderExpr(w, 1)
				wc = w.canon()
			}
			sql += ret
			want = "update " + tbl + " set[" + strings.Join(setsCanon, ";") + "] where " + wc + " returning[" + retCanon + "]"
		default: // DELETE
			class = "delete"
			sql = g.kw("DELETE") + " " + g.kw("FROM") + " " + tbl
			wc := "_"
			if g.r.Chance(80) {
				w := g.Expr(3)
				sql += " " + g.kw("WHERE") + " " + g.renderExpr(w, 1)
				wc = w.canon()
			}
			sql += ret
			want = "delete " + tbl + " where " + wc + " returning[" + retCanon + "]"
		}
		res.count(sql, true)
		tree, err := gosqlx.Parse(sql)
		wit := map[string]any{"sql": sql}
		if err != nil {
			res.fail("rejected:"+class, "a statement of the model grammar is rejected", wit, map[string]any{"error": strings.SplitN(err.Error(), "\n", 2)[0]})
			continue
		}
		got := "?"
		if len(tree.Statements) == 1 {
			switch st := tree.Statements[0].(type) {
			case *ast.InsertStatement:
				var rows []string
				for _, r := range st.Values {
					rows = append(rows, realList(r))
				}
				var cols []string
				for _, cexp := range st.Columns {
					if id, ok := cexp.(*ast.Identifier); ok {
						cols = append(cols, id.Name)
					} else {
						cols = append(cols, realExpr(cexp))
					}
				}
				q := "_"
				if st.Query != nil {
					q = realStmt(st.Query)
				}
				got = "insert " + st.TableName + " cols[" + strings.Join(cols, ";") + "] rows[" + strings.Join(rows, "|") + "] query " + q + " returning[" + realList(st.Returning) + "]"
				if st.OnConflict != nil || st.OnDuplicateKey != nil || st.With != nil {
					got += " +unwritten-clause"
				}
			case *ast.UpdateStatement:
				var sets []string
				for _, a := range st.Assignments {
					col := realExpr(a.Column)
					if id, ok := a.Column.(*ast.Identifier); ok {
						col = id.Name
					}
					sets = append(sets, col+":="+realExpr(a.Value))
				}
				got = "update " + st.TableName + " set[" + strings.Join(sets, ";") + "] where " + realExpr(st.Where) + " returning[" + realList(st.Returning) + "]"
				if st.Alias != "" || len(st.From) > 0 || st.With != nil {
					got += " +unwritten-clause"
				}
			case *ast.DeleteStatement:
				got = "delete " + st.TableName + " where " + realExpr(st.Where) + " returning[" + realList(st.Returning) + "]"
				if st.Alias != "" || len(st.Using) > 0 || st.With != nil {
					got += " +unwritten-clause"
				}
			}
		}
		if got != want {
			k := 0
			for k < len(got) && k < len(want) && got[k] == want[k] {
				k++
			}
			lo := k - 60
			if lo < 0 {
				lo = 0
			}
			if notExistsOperand.MatchString(want) {
				class = "not-exists-as-operand"
			}
			res.fail("tree-differs:"+class, "the parsed tree is not the tree the grammar prescribes", wit, map[string]any{"got": clip(got[lo:], 240), "want": clip(want[lo:], 240)})
		}
		ast.ReleaseAST(tree)
	}
	g.Plain = false
}
