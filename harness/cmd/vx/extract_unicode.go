package main

import (
	"fmt"
	"path/filepath"
	"strings"
	"unicode"
)

// Unicode tables of the Go runtime the models depend on (unicode.IsLetter / IsDigit / IsSpace, the
// categories used by the tokenizer's identifier test, and the simple case mappings behind strings.ToUpper/ToLower).
func ranges(pred func(rune) bool) [][2]int {
	var out [][2]int
	start := -1
	for r := rune(0); r <= unicode.MaxRune+1; r++ {
		in := r <= unicode.MaxRune && pred(r)
		if in && start < 0 {
			start = int(r)
		}
		if !in && start >= 0 {
			out = append(out, [2]int{start, int(r) - 1})
			start = -1
		}
	}
	return out
}

func caseMap(f func(rune) rune) [][2]int {
	var out [][2]int
	for r := rune(0); r <= unicode.MaxRune; r++ {
		if m := f(r); m != r {
			out = append(out, [2]int{int(r), int(m)})
		}
	}
	return out
}

func emitUnicodeLean(dir string) error {
	var b strings.Builder
	b.WriteString(genHeader)
	b.WriteString("namespace GoSQLXModel.Gen.Unicode\n\n")
	emitChunk := func(name string, rs [][2]int) {
		fmt.Fprintf(&b, "def %s : Array (Nat × Nat) := #[", name)
		for i, r := range rs {
			if i > 0 {
				b.WriteString(", ")
			}
			if i%12 == 11 {
				b.WriteString("\n  ")
			}
			fmt.Fprintf(&b, "(%d, %d)", r[0], r[1])
		}
		b.WriteString("]\n\n")
	}
	emitR := func(name string, rs [][2]int) {
		const chunk = 200
		if len(rs) <= chunk {
			emitChunk(name, rs)
			return
		}
		var parts []string
		for i := 0; i < len(rs); i += chunk {
			j := i + chunk
			if j > len(rs) {
				j = len(rs)
			}
			pn := fmt.Sprintf("%s_%d", name, i/chunk)
			emitChunk(pn, rs[i:j])
			parts = append(parts, pn)
		}
		fmt.Fprintf(&b, "def %s : Array (Nat × Nat) := %s\n\n", name, strings.Join(parts, " ++ "))
	}
	emitR("letter", ranges(unicode.IsLetter))
	emitR("digit", ranges(unicode.IsDigit))
	emitR("space", ranges(unicode.IsSpace))
	emitR("mark", ranges(func(r rune) bool { return unicode.Is(unicode.Mn, r) || unicode.Is(unicode.Mc, r) }))
	emitR("connector", ranges(func(r rune) bool { return unicode.Is(unicode.Pc, r) }))
	emitR("upperMap", caseMap(unicode.ToUpper))
	emitR("lowerMap", caseMap(unicode.ToLower))
	b.WriteString("end GoSQLXModel.Gen.Unicode\n")
	_, err := writeIfChanged(filepath.Join(dir, "Unicode.lean"), []byte(b.String()))
	return err
}
