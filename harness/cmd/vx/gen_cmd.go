package main

import (
	"bufio"
	"fmt"
	"os"
	"strconv"
	"strings"
)

func cmdGen(args []string) {
	n, seed := 1000, int64(1)
	if len(args) > 0 {
		n, _ = strconv.Atoi(args[0])
	}
	if len(args) > 1 {
		s, _ := strconv.Atoi(args[1])
		seed = int64(s)
	}
	w := bufio.NewWriter(os.Stdout)
	defer w.Flush()
	r := NewRng(uint64(seed))
	sg := newSQLGen(r.Fork())
	sg.Plain = true
	cg := &c15gen{r: r.Fork()}
	one := func(s string) { fmt.Fprintln(w, strings.Join(strings.Fields(s), " ")) }
	for i := 0; i < n; i++ {
		one(sg.Statement())
		s, _ := cg.Statement()
		one(s)
	}
	for _, f := range repoCorpus() {
		one(f)
	}
	for _, s := range builtinCorpus {
		one(s)
	}
}
