package main

func extractRest12(l *loaded, genDir, jsonDir string) error { return nil }
