package main

import (
	"go/ast"
	"sort"
)

// extractRest12: the node types the CLI formatter (cmd/gosqlx/cmd/sql_formatter.go) has a case for, in
// formatStatement and formatExpression; used by the C06 harness to name the construct behind a CLI failure.
func extractRest12(l *loaded, genDir, jsonDir string) error {
	p := l.pkgs["cmd/gosqlx/cmd"]
	if p == nil {
		return nil
	}
	cases := map[string][]string{}
	for _, f := range p.Syntax {
		for _, d := range f.Decls {
			fd, ok := d.(*ast.FuncDecl)
			if !ok || fd.Recv == nil || fd.Body == nil {
				continue
			}
			if fd.Name.Name != "formatExpression" && fd.Name.Name != "formatStatement" {
				continue
			}
			for _, st := range fd.Body.List {
				ts, ok := st.(*ast.TypeSwitchStmt)
				if !ok {
					continue
				}
				for _, c := range ts.Body.List {
					for _, t := range c.(*ast.CaseClause).List {
						if se, ok := t.(*ast.StarExpr); ok {
							if sel, ok := se.X.(*ast.SelectorExpr); ok {
								cases[fd.Name.Name] = append(cases[fd.Name.Name], sel.Sel.Name)
							}
						}
					}
				}
			}
		}
	}
	for k := range cases {
		sort.Strings(cases[k])
	}
	if err := writeJSON(jsonDir+"/cli_formatter.json", cases); err != nil {
		return err
	}
	return extractRest13(l, genDir, jsonDir)
}
