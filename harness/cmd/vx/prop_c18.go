package main

import (
	"bufio"
	"bytes"
	"encoding/hex"
	"encoding/json"
	"errors"
	"fmt"
	"io"
	"log"
	"runtime/debug"
	"sort"
	"strconv"
	"strings"
	"time"
	"unicode/utf8"

	"github.com/ajitpratap0/GoSQLX/pkg/gosqlx"
	"github.com/ajitpratap0/GoSQLX/pkg/lsp"
	"github.com/ajitpratap0/GoSQLX/pkg/sql/parser"
)

func init() {
	props["C18"] = runC18
	childExtras["lsp"] = childLsp
}

// one step of an LSP history
type lspStep struct {
	Raw    string `json:"raw,omitempty"`   // sent verbatim (may be malformed, may have bad headers)
	Body   string `json:"body,omitempty"`  // JSON body, framed correctly by the driver
	ID     string `json:"id,omitempty"`    // JSON text of the id when this is a request
	DocOp  string `json:"docop,omitempty"` // the same step in the Lean driver's syntax (document ops only)
	URI    string `json:"uri,omitempty"`
	Expect string `json:"expect,omitempty"` // "response" | "none" | "" (not judged: malformed beyond id extraction)
	Ver    int    `json:"ver,omitempty"`    // document version carried by a didOpen / didChange
}

type lspSummary struct {
	Alive       bool                       `json:"alive"`
	Panic       string                     `json:"panic,omitempty"`
	Responses   map[string]int             `json:"responses"`
	FramesOK    bool                       `json:"frames_ok"`
	FrameError  string                     `json:"frame_error,omitempty"`
	Docs        map[string]string          `json:"docs"` // uri -> hex(content)
	LastDiag    map[string]json.RawMessage `json:"last_diag"`
	OutMessages int                        `json:"out_messages"`
}

// firstRepoFrame names the innermost GoSQLX frame of the current (panicking) stack
func firstRepoFrame() string {
	for _, line := range strings.Split(string(debug.Stack()), "\n") {
		if strings.Contains(line, "/repo/pkg/") {
			return strings.TrimSpace(line)
		}
	}
	return "?"
}

func frameLSP(body string) string {
	return fmt.Sprintf("Content-Length: %d\r\n\r\n%s", len(body), body)
}

// childLsp runs the real server in-process (inside the child) over pipes and summarises what it did.
func childLsp(data []byte) string {
	var steps []lspStep
	if err := json.Unmarshal(data, &steps); err != nil {
		return "bad-history"
	}
	inR, inW := io.Pipe()
	var out bytes.Buffer
	outDone := make(chan struct{})
	outR, outW := io.Pipe()
	go func() { io.Copy(&out, outR); close(outDone) }()
	srv := lsp.NewServer(inR, outW, log.New(io.Discard, "", 0))
	sum := lspSummary{Responses: map[string]int{}, Docs: map[string]string{}, LastDiag: map[string]json.RawMessage{}, FramesOK: true}
	runDone := make(chan string, 1)
	go func() {
		defer func() {
			if r := recover(); r != nil {
				runDone <- fmt.Sprint("panic: ", r, " @ ", firstRepoFrame())
			}
		}()
		_ = srv.Run()
		runDone <- ""
	}()
	var in strings.Builder
	for _, st := range steps {
		if st.Raw != "" {
			in.WriteString(st.Raw)
		} else {
			in.WriteString(frameLSP(st.Body))
		}
	}
	// a final request proves the server is still answering
	in.WriteString(frameLSP(`{"jsonrpc":"2.0","id":"__alive__","method":"shutdown"}`))
	go func() { io.WriteString(inW, in.String()); inW.Close() }()
	select {
	case p := <-runDone:
		sum.Panic = p
	case <-time.After(20 * time.Second):
		sum.Panic = "timeout"
	}
	outW.Close()
	<-outDone
	// parse the output frames
	rd := bufio.NewReader(bytes.NewReader(out.Bytes()))
	for {
		line, err := rd.ReadString('\n')
		if err == io.EOF && line == "" {
			break
		}
		if !strings.HasPrefix(line, "Content-Length: ") || !strings.HasSuffix(line, "\r\n") {
			sum.FramesOK, sum.FrameError = false, "bad header line: "+strconv.Quote(line)
			break
		}
		n, err := strconv.Atoi(strings.TrimSuffix(strings.TrimPrefix(line, "Content-Length: "), "\r\n"))
		if err != nil {
			sum.FramesOK, sum.FrameError = false, "bad length"
			break
		}
		sep, _ := rd.ReadString('\n')
		if sep != "\r\n" {
			sum.FramesOK, sum.FrameError = false, "missing blank line"
			break
		}
		body := make([]byte, n)
		if _, err := io.ReadFull(rd, body); err != nil {
			sum.FramesOK, sum.FrameError = false, "short body"
			break
		}
		var msg struct {
			ID     json.RawMessage `json:"id"`
			Method string          `json:"method"`
			Params json.RawMessage `json:"params"`
		}
		if err := json.Unmarshal(body, &msg); err != nil {
			sum.FramesOK, sum.FrameError = false, "frame body is not one JSON value (length header wrong?): "+truncate(string(body), 80)
			break
		}
		sum.OutMessages++
		if len(msg.ID) > 0 && string(msg.ID) != "null" && msg.Method == "" {
			sum.Responses[string(msg.ID)]++
		}
		if msg.Method == "textDocument/publishDiagnostics" {
			var p struct {
				URI string `json:"uri"`
			}
			_ = json.Unmarshal(msg.Params, &p)
			sum.LastDiag[p.URI] = msg.Params
		}
	}
	sum.Alive = sum.Responses[`"__alive__"`] == 1 && !strings.HasPrefix(sum.Panic, "panic") && sum.Panic != "timeout"
	seen := map[string]bool{}
	for _, st := range steps {
		if st.URI != "" && !seen[st.URI] {
			seen[st.URI] = true
			if c, ok := srv.Documents().GetContent(st.URI); ok {
				sum.Docs[st.URI] = hex.EncodeToString([]byte(c))
			}
		}
	}
	b, _ := json.Marshal(sum)
	return string(b)
}

// ---------------------------------------------------------------------------------------------

type lspGen struct {
	r    *Rng
	id   int
	docs map[string]bool
	ver  int
	// how the client numbers its versions in this history: 1-2 increasing, 3 restarting now and then, 4 arbitrary,
	// 5 decreasing, 6 sometimes omitted (0) — the mirror is defined by the sequence of changes, not by their numbers
	verMode int
	texts   []string
	cur     map[string]string // the text last sent in full for a URI ("" when unknown)
	uris    []string          // nil: not chosen yet; empty: the default d0..d2
}

func jstr(s string) string { b, _ := json.Marshal(s); return string(b) }

func (g *lspGen) text() string {
	base := []string{"SELECT a FROM t", "SELECT é, 名前 FROM t\nWHERE x = 'ü'", "SELECT 😀 AS e\r\nFROM t\r\n", "", "\n\n", "SELECT a\nFROM\n\nt WHERE", "SELEC a FROM",
		"a𝒳b\n𝒳\ncc", "SELECT a FROM t WHERE a = ;\nSELECT b FROM u;\nSELECT FROM", "x", "é", "\r\n",
		"SELECT a\nFROM t\nLEFT JOIN u ON\n)\n\n", "SELECT a FROM t\nGROUP BY a\nORDER BY a;\nSELECT b FROM\n;\nSELECT 1", "SELECT a FROM t LEFT OUTER JOIN u ON t.i = u.i INNER JOIN v ON\n\n  WHERE",
		"SELECT '😀' AS e, a FROM t ORDER BY\n\n;\nSELECT ("}
	if len(g.texts) > 0 && g.r.Chance(30) {
		return g.texts[g.r.Intn(len(g.texts))]
	}
	return base[g.r.Intn(len(base))]
}

func (g *lspGen) pos() (int, int) {
	switch g.r.Intn(10) {
	case 0:
		return -1, g.r.Intn(4)
	case 1:
		return g.r.Intn(3), -2
	case 2:
		return 50 + g.r.Intn(5), g.r.Intn(4)
	case 3:
		return g.r.Intn(3), 100
	}
	return g.r.Intn(4), g.r.Intn(9)
}

func (g *lspGen) step() lspStep {
	uri := fmt.Sprintf("file:///d%d.sql", g.r.Intn(3))
	if g.uris == nil {
		g.uris = []string{}
		if g.r.Chance(35) {
			// documents whose names look alike: letter case, percent-encoding, dot segments, fragments, drive letters,
			// schemes — each URI is a document of its own, identified by its exact spelling
			fams := [][]string{
				{"file:///srv/sql/Report.sql", "file:///srv/sql/report.sql", "file:///srv/sql/REPORT.SQL"},
				{"file:///srv/sql/report.sql", "file:///srv/sql/report%2Esql", "file:///srv/sql/r%65port.sql", "file:///srv/sql/./report.sql"},
				{"file:///C:/x/a.sql", "file:///c%3A/x/a.sql", "file:///c:/x/a.sql"},
				{"file:///a.sql", "file:///a.sql#L1", "file:///a.sql?v=1", "FILE:///a.sql"},
				{"untitled:Untitled-1", "untitled:untitled-1", "inmemory://model/1", "inmemory://model/1/"},
				{"file:///tmp/a%20b.sql", "file:///tmp/a b.sql", "file:///tmp/a+b.sql"},
			}
			g.uris = fams[g.r.Intn(len(fams))]
		}
	}
	if len(g.uris) > 0 {
		uri = g.uris[g.r.Intn(len(g.uris))]
	}
	if g.verMode == 0 {
		g.verMode = 1 + g.r.Intn(6)
	}
	switch g.verMode {
	case 3:
		if g.r.Chance(20) {
			g.ver = 1
		} else {
			g.ver++
		}
	case 4:
		g.ver = 1 + g.r.Intn(9)
	case 5:
		if g.ver <= 1 {
			g.ver = 40
		} else {
			g.ver--
		}
	case 6:
		if g.r.Bool() {
			g.ver = 0
		} else {
			g.ver = g.ver + 1 + g.r.Intn(3)
		}
	default:
		g.ver++
	}
	if g.cur == nil {
		g.cur = map[string]string{}
	}
	// sometimes: the same text again — a close followed by a re-open, or a change that changes nothing
	if t, ok := g.cur[uri]; ok && g.r.Chance(12) {
		if g.r.Bool() {
			return lspStep{Body: fmt.Sprintf(`{"jsonrpc":"2.0","method":"textDocument/didChange","params":{"textDocument":{"uri":%s,"version":%d},"contentChanges":[{"text":%s}]}}`, jstr(uri), g.ver, jstr(t)),
				DocOp: "C " + uri + " F:" + hex.EncodeToString([]byte(t)), URI: uri, Expect: "none", Ver: g.ver}
		}
		return lspStep{Body: fmt.Sprintf(`{"jsonrpc":"2.0","method":"textDocument/didOpen","params":{"textDocument":{"uri":%s,"languageId":"sql","version":%d,"text":%s}}}`, jstr(uri), g.ver, jstr(t)),
			DocOp: "O " + uri + " " + hex.EncodeToString([]byte(t)), URI: uri, Expect: "none", Ver: g.ver}
	}
	switch k := g.r.Intn(20); {
	case k < 4: // open
		t := g.text()
		g.docs[uri] = true
		g.cur[uri] = t
		return lspStep{Body: fmt.Sprintf(`{"jsonrpc":"2.0","method":"textDocument/didOpen","params":{"textDocument":{"uri":%s,"languageId":"sql","version":%d,"text":%s}}}`, jstr(uri), g.ver, jstr(t)),
			DocOp: "O " + uri + " " + hex.EncodeToString([]byte(t)), URI: uri, Expect: "none", Ver: g.ver}
	case k < 11: // change
		n := 1 + g.r.Intn(3)
		var cs, ds []string
		for i := 0; i < n; i++ {
			t := g.r.Pick([]string{"", "X", "é", "\n", "ab\ncd", "😀", " FROM u", "\r\n"})
			if g.r.Chance(20) {
				full := g.text()
				cs = append(cs, fmt.Sprintf(`{"text":%s}`, jstr(full)))
				ds = append(ds, "F:"+hex.EncodeToString([]byte(full)))
				g.cur[uri] = full
				continue
			}
			sl, sc := g.pos()
			el, ec := g.pos()
			if g.r.Chance(60) && (el < sl || (el == sl && ec < sc)) {
				sl, sc, el, ec = el, ec, sl, sc
			}
			cs = append(cs, fmt.Sprintf(`{"range":{"start":{"line":%d,"character":%d},"end":{"line":%d,"character":%d}},"text":%s}`, sl, sc, el, ec, jstr(t)))
			ds = append(ds, fmt.Sprintf("R:%d:%d:%d:%d:%s", sl, sc, el, ec, hex.EncodeToString([]byte(t))))
			delete(g.cur, uri)
		}
		return lspStep{Body: fmt.Sprintf(`{"jsonrpc":"2.0","method":"textDocument/didChange","params":{"textDocument":{"uri":%s,"version":%d},"contentChanges":[%s]}}`, jstr(uri), g.ver, strings.Join(cs, ",")),
			DocOp: "C " + uri + " " + strings.Join(ds, ","), URI: uri, Expect: "none", Ver: g.ver}
	case k < 12: // close
		return lspStep{Body: fmt.Sprintf(`{"jsonrpc":"2.0","method":"textDocument/didClose","params":{"textDocument":{"uri":%s}}}`, jstr(uri)),
			DocOp: "X " + uri, URI: uri, Expect: "none"}
	case k < 16: // request of some kind
		g.id++
		id := strconv.Itoa(g.id)
		if g.r.Chance(20) {
			id = jstr("s" + id)
		}
		m := g.r.Pick([]string{"textDocument/hover", "textDocument/completion", "textDocument/formatting", "textDocument/documentSymbol",
			"textDocument/signatureHelp", "textDocument/codeAction", "initialize", "no/such/method", "textDocument/definition", "$/weird"})
		l, ch := g.pos()
		params := fmt.Sprintf(`{"textDocument":{"uri":%s},"position":{"line":%d,"character":%d},"range":{"start":{"line":0,"character":0},"end":{"line":%d,"character":%d}},"context":{"diagnostics":[]},"options":{"tabSize":2,"insertSpaces":true}}`, jstr(uri), l, ch, l, ch)
		if g.r.Chance(15) {
			params = g.r.Pick([]string{`null`, `[]`, `"x"`, `{"textDocument":5}`, `{}`})
		}
		return lspStep{Body: fmt.Sprintf(`{"jsonrpc":"2.0","id":%s,"method":%s,"params":%s}`, id, jstr(m), params), ID: id, URI: uri, Expect: "response"}
	case k < 17: // notification of some kind
		if g.r.Chance(45) {
			// a notification about a request: the id of any earlier request (answered with a result or with an error),
			// an id never used, or an id of another JSON type — a notification is never answered, and no id is answered twice
			id := strconv.Itoa(g.id + 50)
			if g.id > 0 && g.r.Chance(80) {
				id = strconv.Itoa(1 + g.r.Intn(g.id))
				if g.r.Chance(30) {
					id = jstr("s" + id)
				}
			} else if g.r.Chance(30) {
				id = g.r.Pick([]string{`null`, `"x"`, `1.5`, `[1]`, `{}`, `true`})
			}
			m := g.r.Pick([]string{"$/cancelRequest", "$/cancelRequest", "$/cancelRequest", "$/progress", "$/setTrace", "$/logTrace"})
			return lspStep{Body: fmt.Sprintf(`{"jsonrpc":"2.0","method":%s,"params":{"id":%s,"token":%s,"value":"off"}}`, jstr(m), id, id), URI: uri, Expect: "none"}
		}
		m := g.r.Pick([]string{"initialized", "textDocument/didSave", "$/cancelRequest", "unknown/notification", "workspace/didChangeConfiguration"})
		return lspStep{Body: fmt.Sprintf(`{"jsonrpc":"2.0","method":%s,"params":{"textDocument":{"uri":%s}}}`, jstr(m), jstr(uri)), URI: uri, Expect: "none"}
	case k < 18: // JSON with a wrongly typed envelope but an id
		g.id++
		id := strconv.Itoa(g.id)
		body := g.r.Pick([]string{
			`{"jsonrpc":2.0,"id":%s,"method":"textDocument/hover","params":{}}`,
			`{"jsonrpc":["2.0"],"id":%s,"method":"initialize"}`,
			`{"jsonrpc":"2.0","id":%s,"method":7}`,
			`{"jsonrpc":"2.0","id":%s}`,
			`{"jsonrpc":"2.0","id":%s,"method":""}`,
		})
		return lspStep{Body: fmt.Sprintf(body, id), ID: id, Expect: "response"}
	case k < 19: // syntactically broken JSON / junk bodies
		return lspStep{Body: g.r.Pick([]string{`{"jsonrpc":"2.0","id":`, `[1,2`, `nonsense`, `{`, `x`, `""`, `[]`, `17`, `{"method":"textDocument/didChange","params":{"textDocument":{"uri":"file:///d0.sql"},"contentChanges":[{"range":{"start":{"line":"a"}}}]}}`})}
	default: // bad headers
		return lspStep{Raw: g.r.Pick([]string{"Content-Length: abc\r\n\r\n", "Content-Length: 0\r\n\r\n", "X-Foo: 1\r\n\r\n", "Content-Length: 99999999999\r\n\r\n", "Content-Length: -5\r\n\r\n", "\r\n", "Content-Type: x\r\nContent-Length: 2\r\n\r\n{}"})}
	}
}

func runC18(c *runCtx) {
	res := c.res
	res.Rule = "message histories below the rate limiter's window (initialize, didOpen/didChange/didClose with full and incremental edits whose ranges are in range, past the end, inverted, negative, inside surrogate pairs, over ASCII/non-ASCII/CRLF text; requests of every kind incl. unknown methods and bad params; wrongly typed envelopes; broken JSON; bad headers) are sent to the real server in a child process; checked: still answering afterwards, exactly one response per request id and none for notifications, every output frame's Content-Length exact, mirrored documents equal to the Lean model's (driver op lsp, proved equal to the protocol spec), last diagnostics = those of the mirrored text at the last version with lines of the offending tokens; thorough adds exhaustive edit ranges over small documents (distinct = distinct histories)"
	pool := newChildPool()
	defer pool.Close()
	drv := c.driver()
	rounds := c.n(400, 8000)
	for r := 0; r < rounds; r++ {
		g := &lspGen{r: c.rng.Fork(), docs: map[string]bool{}}
		n := 3 + c.rng.Intn(40)
		if n > 90 {
			n = 90
		}
		steps := []lspStep{{Body: `{"jsonrpc":"2.0","id":0,"method":"initialize","params":{}}`, ID: "0", Expect: "response"}}
		for i := 0; i < n; i++ {
			steps = append(steps, g.step())
		}
		runLspHistory(c, pool, drv, steps, r < 2)
	}
	// exhaustive small scope: all edit ranges over small documents (thorough) / a slice of them (quick)
	alphabet := []string{"a", "\n", "😀", "é"}
	var docs []string
	var build func(prefix string, k int)
	build = func(prefix string, k int) {
		docs = append(docs, prefix)
		if k == 0 {
			return
		}
		for _, a := range alphabet {
			build(prefix+a, k-1)
		}
	}
	build("", c.n(2, 3))
	cnt := 0
	for _, d := range docs {
		var steps []lspStep
		uri := "file:///x.sql"
		for sl := -1; sl <= 3; sl++ {
			for sc := -1; sc <= 4; sc++ {
				for el := sl; el <= 3; el++ {
					for ec := -1; ec <= 4; ec++ {
						cnt++
						if c.quick && cnt%7 != 0 {
							continue
						}
						steps = append(steps,
							lspStep{Body: fmt.Sprintf(`{"jsonrpc":"2.0","method":"textDocument/didOpen","params":{"textDocument":{"uri":%s,"languageId":"sql","version":1,"text":%s}}}`, jstr(uri), jstr(d)),
								DocOp: "O " + uri + " " + hex.EncodeToString([]byte(d)), URI: uri, Expect: "none"},
							lspStep{Body: fmt.Sprintf(`{"jsonrpc":"2.0","method":"textDocument/didChange","params":{"textDocument":{"uri":%s,"version":2},"contentChanges":[{"range":{"start":{"line":%d,"character":%d},"end":{"line":%d,"character":%d}},"text":"Z"}]}}`, jstr(uri), sl, sc, el, ec),
								DocOp: fmt.Sprintf("C %s R:%d:%d:%d:%d:5a", uri, sl, sc, el, ec), URI: uri, Expect: "none"})
						if len(steps) >= 80 {
							runLspHistoryCheckEach(c, pool, drv, steps)
							steps = nil
						}
					}
				}
			}
		}
		if len(steps) > 0 {
			runLspHistoryCheckEach(c, pool, drv, steps)
		}
	}
}

// runLspHistoryCheckEach: histories made of (open, change) pairs on one uri; only the final document of the whole
// history is observable, so run each pair as its own history (rate limiter: stay below the window).
func runLspHistoryCheckEach(c *runCtx, pool *childPool, drv *Driver, steps []lspStep) {
	for i := 0; i+1 < len(steps); i += 2 {
		runLspHistory(c, pool, drv, steps[i:i+2], false)
	}
}

func runLspHistory(c *runCtx, pool *childPool, drv *Driver, steps []lspStep, sample bool) {
	res := c.res
	data, _ := json.Marshal(steps)
	ans := pool.Run("x:lsp", data, 40*time.Second)
	res.count(string(data), true)
	wit := map[string]any{"history": steps}
	if sample {
		res.sample(map[string]any{"steps": len(steps), "first": steps[:minInt(3, len(steps))]})
	}
	if ans == "crash" || ans == "hang" || !strings.HasPrefix(ans, "{") {
		res.fail("lsp-server-died", "the server process crashed or hung on a message history: "+truncate(ans, 100), wit, nil)
		return
	}
	var sum lspSummary
	if err := json.Unmarshal([]byte(ans), &sum); err != nil {
		res.corrFail("lsp-summary", "cannot decode child summary", ans, nil)
		return
	}
	if !sum.Alive {
		res.fail("lsp-server-died", "after the history the server no longer answers (panic: "+sum.Panic+")", wit, nil)
		return
	}
	if !sum.FramesOK {
		res.fail("lsp-frame-length", "an outgoing message is not framed with its exact byte length: "+sum.FrameError, wit, nil)
	}
	for _, st := range steps {
		if st.Expect == "response" && sum.Responses[st.ID] != 1 {
			res.fail("lsp-response-count", fmt.Sprintf("request id %s received %d responses (want exactly 1)", st.ID, sum.Responses[st.ID]), wit, st.Body)
		}
	}
	wantIDs := map[string]bool{`"__alive__"`: true}
	for _, st := range steps {
		if st.ID != "" {
			wantIDs[st.ID] = true
		}
	}
	for id := range sum.Responses {
		if !wantIDs[id] {
			res.fail("lsp-unsolicited-response", "a response was sent for id "+id+" which no request carried", wit, nil)
		}
	}
	// mirrored documents vs the Lean model
	var ops []string
	for _, st := range steps {
		if st.DocOp != "" {
			ops = append(ops, st.DocOp)
		}
	}
	if drv != nil && len(ops) > 0 {
		model, err := drv.Ask("lsp", strings.Join(ops, ";"))
		if err == nil && model != "bad-payload" {
			res.CorrCases++
			var real []string
			uris := make([]string, 0, len(sum.Docs))
			for u := range sum.Docs {
				uris = append(uris, u)
			}
			sort.Strings(uris)
			validUTF8 := true
			for _, u := range uris {
				real = append(real, u+"="+sum.Docs[u])
				b, _ := hex.DecodeString(sum.Docs[u])
				if !utf8.Valid(b) {
					validUTF8 = false
				}
			}
			if !validUTF8 {
				res.fail("lsp-mirror-invalid-utf8", "the mirrored document is no longer valid UTF-8 (an edit split a character)", wit, real)
			} else if strings.Join(real, ";") != model {
				res.fail("lsp-mirror-differs", "the server's copy of a document differs from the text obtained by applying the edits under the protocol's position rules",
					wit, map[string]any{"server": real, "spec_model": model})
			}
		}
	}
	// diagnostics of the final text
	for uri, hx := range sum.Docs {
		raw, ok := sum.LastDiag[uri]
		if !ok {
			continue
		}
		var p struct {
			Version     int `json:"version"`
			Diagnostics []struct {
				Range struct {
					Start struct{ Line, Character int } `json:"start"`
				} `json:"range"`
			} `json:"diagnostics"`
		}
		if json.Unmarshal(raw, &p) != nil {
			continue
		}
		lastVer := 0
		for _, st := range steps {
			if st.URI == uri && st.Ver != 0 {
				lastVer = st.Ver
			}
		}
		if p.Version != 0 && lastVer != 0 && p.Version != lastVer {
			res.fail("lsp-diagnostics-version", "the last published diagnostics carry another version than the document's last one", wit,
				map[string]any{"uri": uri, "published_version": p.Version, "document_version": lastVer})
		}
		content, _ := hex.DecodeString(hx)
		_, errs := gosqlx.ParseWithRecovery(string(content))
		if len(errs) != len(p.Diagnostics) {
			res.fail("lsp-diagnostics-stale", "the last published diagnostics are not those of the mirrored text", wit,
				map[string]any{"uri": uri, "published": len(p.Diagnostics), "of_text": len(errs)})
			continue
		}
		for i, e := range errs {
			var pe *parser.ParseError
			if errors.As(e, &pe) {
				if pe.Line < 1 {
					res.fail("lsp-diagnostic-unanchored", "a recovery error carries no line (diagnostic published at the top of the document)", wit, nil)
				} else if p.Diagnostics[i].Range.Start.Line != pe.Line-1 {
					res.fail("lsp-diagnostic-line", "a diagnostic is not anchored on the line of the token that caused it", wit,
						map[string]any{"published_line": p.Diagnostics[i].Range.Start.Line, "token_line": pe.Line - 1})
				}
			}
		}
	}
}

// lspFormatText: the language server's format action on a document holding `text` (in-process server over pipes):
// the text after applying the edits it answers (the server replaces the whole document, or answers no edit).
func lspFormatText(text string, insertSpaces bool, tabSize int) (formatted string, ok bool) {
	inR, inW := io.Pipe()
	var out bytes.Buffer
	outDone := make(chan struct{})
	outR, outW := io.Pipe()
	go func() { io.Copy(&out, outR); close(outDone) }()
	srv := lsp.NewServer(inR, outW, log.New(io.Discard, "", 0))
	runDone := make(chan struct{})
	go func() {
		defer func() { _ = recover(); close(runDone) }()
		_ = srv.Run()
	}()
	uri := "file:///f.sql"
	msgs := []string{
		`{"jsonrpc":"2.0","id":1,"method":"initialize","params":{"capabilities":{}}}`,
		`{"jsonrpc":"2.0","method":"textDocument/didOpen","params":{"textDocument":{"uri":` + jstr(uri) + `,"languageId":"sql","version":1,"text":` + jstr(text) + `}}}`,
		fmt.Sprintf(`{"jsonrpc":"2.0","id":"fmt","method":"textDocument/formatting","params":{"textDocument":{"uri":%s},"options":{"tabSize":%d,"insertSpaces":%v}}}`, jstr(uri), tabSize, insertSpaces),
		`{"jsonrpc":"2.0","id":2,"method":"shutdown"}`,
	}
	var in strings.Builder
	for _, m := range msgs {
		in.WriteString(frameLSP(m))
	}
	go func() { io.WriteString(inW, in.String()); inW.Close() }()
	select {
	case <-runDone:
	case <-time.After(10 * time.Second):
		return "", false
	}
	outW.Close()
	<-outDone
	rd := bufio.NewReader(bytes.NewReader(out.Bytes()))
	for {
		line, err := rd.ReadString('\n')
		if err != nil {
			return "", false
		}
		n, err := strconv.Atoi(strings.TrimSuffix(strings.TrimPrefix(line, "Content-Length: "), "\r\n"))
		if err != nil {
			return "", false
		}
		if sep, _ := rd.ReadString('\n'); sep != "\r\n" {
			return "", false
		}
		body := make([]byte, n)
		if _, err := io.ReadFull(rd, body); err != nil {
			return "", false
		}
		var msg struct {
			ID     json.RawMessage `json:"id"`
			Result json.RawMessage `json:"result"`
			Error  json.RawMessage `json:"error"`
		}
		if json.Unmarshal(body, &msg) != nil || string(msg.ID) != `"fmt"` {
			continue
		}
		if len(msg.Error) > 0 && string(msg.Error) != "null" {
			return "", false
		}
		var edits []lspTextEdit
		if len(msg.Result) == 0 || string(msg.Result) == "null" {
			return text, true
		}
		if json.Unmarshal(msg.Result, &edits) != nil {
			return "", false
		}
		if len(edits) == 0 {
			return text, true
		}
		// what the client has after the action: the edits applied to its text under the protocol's position rules
		// (UTF-16 code units, positions past a line's end or past the last line clamped), last edit first
		out := text
		for i := len(edits) - 1; i >= 0; i-- {
			out = applyLspEdit(out, edits[i])
		}
		return out, true
	}
}

type lspTextEdit struct {
	Range struct {
		Start, End struct{ Line, Character int }
	} `json:"range"`
	NewText string `json:"newText"`
}

// lspOffset: byte offset of (line, character) in text; character counts UTF-16 code units
func lspOffset(text string, line, character int) int {
	if line < 0 {
		return 0
	}
	off := 0
	for l := 0; l < line; l++ {
		i := strings.IndexByte(text[off:], '\n')
		if i < 0 {
			return len(text)
		}
		off += i + 1
	}
	end := len(text)
	if i := strings.IndexByte(text[off:], '\n'); i >= 0 {
		end = off + i
	}
	units := 0
	for off < end && units < character {
		r, sz := utf8.DecodeRuneInString(text[off:])
		if r >= 0x10000 {
			units += 2
		} else {
			units++
		}
		off += sz
	}
	return off
}

func applyLspEdit(text string, e lspTextEdit) string {
	a := lspOffset(text, e.Range.Start.Line, e.Range.Start.Character)
	b := lspOffset(text, e.Range.End.Line, e.Range.End.Character)
	if b < a {
		a, b = b, a
	}
	return text[:a] + e.NewText + text[b:]
}
