package main

// Fact extractor: loads /repo's current working tree with go/packages (syntax + types) and
// emits fact tables as JSON (gen/*.json) and as Lean definitions (lean/GoSQLXModel/Gen/*.lean).
// Files are rewritten only when their content changed, so an unchanged tree costs no rebuild.

import (
	"encoding/json"
	"fmt"
	"go/ast"
	"go/token"
	"go/types"
	"os"
	"path/filepath"
	"sort"
	"strings"

	"golang.org/x/tools/go/packages"
)

const repoDir = "/repo"
const modPath = "github.com/ajitpratap0/GoSQLX"

type loaded struct {
	fset *token.FileSet
	pkgs map[string]*packages.Package
}

func loadRepo(patterns ...string) (*loaded, error) {
	fset := token.NewFileSet()
	cfg := &packages.Config{
		Mode: packages.NeedName | packages.NeedFiles | packages.NeedSyntax | packages.NeedTypes |
			packages.NeedTypesInfo | packages.NeedImports | packages.NeedDeps,
		Dir:   repoDir,
		Fset:  fset,
		Tests: false,
		Env:   append(os.Environ(), "GOFLAGS=-mod=mod", "GOPROXY=off", "GOSUMDB=off", "GOTOOLCHAIN=local"),
	}
	ps, err := packages.Load(cfg, patterns...)
	if err != nil {
		return nil, err
	}
	l := &loaded{fset: fset, pkgs: map[string]*packages.Package{}}
	for _, p := range ps {
		if len(p.Errors) > 0 {
			return nil, fmt.Errorf("package %s: %v", p.PkgPath, p.Errors[0])
		}
		l.pkgs[strings.TrimPrefix(p.PkgPath, modPath+"/")] = p
	}
	return l, nil
}

// ---------------------------------------------------------------------------------------------
// AST schema, Children() table, pool table (pkg/sql/ast)

type SchemaField struct {
	Name string `json:"name"`
	Elem string `json:"elem"` // named element type after stripping pointers, slices, arrays, maps
	Kind string `json:"kind"` // "iface" (Node-like interface), "struct" (named struct of the package), "other"
	Ptr  bool   `json:"ptr"`
	Rep  bool   `json:"rep"` // slice / array / map
}

type SchemaType struct {
	Name   string        `json:"name"`
	IsNode bool          `json:"is_node"` // *T or T implements ast.Node
	Fields []SchemaField `json:"fields"`
}

type ChildrenEntry struct {
	Type   string   `json:"type"`
	Fields []string `json:"fields"` // first-level receiver fields mentioned in Children()
}

type PoolSite struct {
	Site    string   `json:"site"` // function name, or PutExpression/<Type>
	Type    string   `json:"type"`
	Cleared []string `json:"cleared"`
}

type AstTables struct {
	Schema   []SchemaType    `json:"schema"`
	Children []ChildrenEntry `json:"children"`
	Pools    []PoolSite      `json:"pools"`
	PoolNew  []PoolSite      `json:"pool_new"` // fields a pool's New function pre-populates (informational)
}

func stripType(t types.Type) (elem types.Type, ptr, rep bool) {
	for {
		switch x := t.(type) {
		case *types.Pointer:
			ptr = true
			t = x.Elem()
		case *types.Slice:
			rep = true
			t = x.Elem()
		case *types.Array:
			rep = true
			t = x.Elem()
		case *types.Map:
			rep = true
			t = x.Elem()
		default:
			return t, ptr, rep
		}
	}
}

func extractAst(l *loaded) (*AstTables, error) {
	p := l.pkgs["pkg/sql/ast"]
	if p == nil {
		return nil, fmt.Errorf("pkg/sql/ast not loaded")
	}
	scope := p.Types.Scope()
	nodeObj := scope.Lookup("Node")
	if nodeObj == nil {
		return nil, fmt.Errorf("ast.Node not found")
	}
	nodeIface := nodeObj.Type().Underlying().(*types.Interface)
	implements := func(t types.Type) bool {
		return types.Implements(t, nodeIface) || types.Implements(types.NewPointer(t), nodeIface)
	}
	out := &AstTables{}
	names := scope.Names()
	sort.Strings(names)
	for _, n := range names {
		tn, ok := scope.Lookup(n).(*types.TypeName)
		if !ok {
			continue
		}
		st, ok := tn.Type().Underlying().(*types.Struct)
		if !ok {
			continue
		}
		e := SchemaType{Name: n, IsNode: implements(tn.Type())}
		for i := 0; i < st.NumFields(); i++ {
			f := st.Field(i)
			el, ptr, rep := stripType(f.Type())
			sf := SchemaField{Name: f.Name(), Ptr: ptr, Rep: rep, Kind: "other", Elem: types.TypeString(el, func(*types.Package) string { return "" })}
			if named, ok := el.(*types.Named); ok && named.Obj().Pkg() == p.Types {
				sf.Elem = named.Obj().Name()
				switch u := named.Underlying().(type) {
				case *types.Interface:
					if types.Implements(named, nodeIface) || u.NumMethods() > 0 && types.AssignableTo(named, nodeObj.Type()) {
						sf.Kind = "iface"
					}
				case *types.Struct:
					sf.Kind = "struct"
				}
			}
			e.Fields = append(e.Fields, sf)
		}
		out.Schema = append(out.Schema, e)
	}

	// Children() bodies and Put* bodies, syntactically
	for _, f := range p.Syntax {
		for _, d := range f.Decls {
			fd, ok := d.(*ast.FuncDecl)
			if !ok || fd.Body == nil {
				continue
			}
			if fd.Recv != nil && fd.Name.Name == "Children" && len(fd.Recv.List) == 1 {
				rt := fd.Recv.List[0].Type
				if s, ok := rt.(*ast.StarExpr); ok {
					rt = s.X
				}
				tn, ok := rt.(*ast.Ident)
				if !ok {
					continue
				}
				recv := ""
				if len(fd.Recv.List[0].Names) == 1 {
					recv = fd.Recv.List[0].Names[0].Name
				}
				set := map[string]bool{}
				if recv != "" && recv != "_" {
					// maximal selector chains rooted at the receiver: recv.A.B -> "A.B"
					inner := map[*ast.SelectorExpr]bool{}
					ast.Inspect(fd.Body, func(n ast.Node) bool {
						if se, ok := n.(*ast.SelectorExpr); ok {
							if in, ok := se.X.(*ast.SelectorExpr); ok {
								inner[in] = true
							}
						}
						return true
					})
					ast.Inspect(fd.Body, func(n ast.Node) bool {
						se, ok := n.(*ast.SelectorExpr)
						if !ok || inner[se] {
							return true
						}
						var parts []string
						var cur ast.Expr = se
						for {
							if s2, ok := cur.(*ast.SelectorExpr); ok {
								if sel := p.TypesInfo.Selections[s2]; sel == nil || sel.Kind() != types.FieldVal {
									// method value or package selector: drop this link
									parts = nil
								} else {
									parts = append([]string{s2.Sel.Name}, parts...)
								}
								cur = s2.X
								continue
							}
							break
						}
						if id, ok := cur.(*ast.Ident); ok && id.Name == recv && len(parts) > 0 {
							if o, ok := p.TypesInfo.Uses[id].(*types.Var); ok && o.Pos() == fd.Recv.List[0].Names[0].Pos() {
								set[strings.Join(parts, ".")] = true
							}
						}
						return true
					})
				}
				out.Children = append(out.Children, ChildrenEntry{Type: tn.Name, Fields: sortedKeys(set)})
			}
			if fd.Recv == nil && strings.HasPrefix(fd.Name.Name, "Put") && fd.Type.Params != nil && len(fd.Type.Params.List) == 1 && len(fd.Type.Params.List[0].Names) == 1 {
				prm := fd.Type.Params.List[0]
				pname := prm.Names[0]
				if fd.Name.Name == "PutExpression" {
					// type switch cases
					ast.Inspect(fd.Body, func(n ast.Node) bool {
						ts, ok := n.(*ast.TypeSwitchStmt)
						if !ok {
							return true
						}
						for _, c := range ts.Body.List {
							cc := c.(*ast.CaseClause)
							if len(cc.List) != 1 {
								continue
							}
							se, ok := cc.List[0].(*ast.StarExpr)
							if !ok {
								continue
							}
							tn, ok := se.X.(*ast.Ident)
							if !ok {
								continue
							}
							obj := p.TypesInfo.Implicits[cc]
							cleared := clearedFields(p, cc.Body, obj)
							out.Pools = append(out.Pools, PoolSite{Site: "PutExpression/" + tn.Name, Type: tn.Name, Cleared: cleared})
						}
						return false
					})
					continue
				}
				se, ok := prm.Type.(*ast.StarExpr)
				if !ok {
					continue
				}
				tn, ok := se.X.(*ast.Ident)
				if !ok {
					continue
				}
				if _, isStruct := scope.Lookup(tn.Name).Type().Underlying().(*types.Struct); !isStruct {
					continue
				}
				obj := p.TypesInfo.Defs[pname]
				cleared := clearedFields(p, fd.Body.List, obj)
				out.Pools = append(out.Pools, PoolSite{Site: fd.Name.Name, Type: tn.Name, Cleared: cleared})
			}
		}
	}
	// ReleaseAST clears AST.Statements: treat as a site for type AST
	for _, f := range p.Syntax {
		for _, d := range f.Decls {
			fd, ok := d.(*ast.FuncDecl)
			if ok && fd.Recv == nil && fd.Name.Name == "ReleaseAST" && fd.Body != nil && len(fd.Type.Params.List) == 1 {
				obj := p.TypesInfo.Defs[fd.Type.Params.List[0].Names[0]]
				out.Pools = append(out.Pools, PoolSite{Site: "ReleaseAST", Type: "AST", Cleared: clearedFields(p, fd.Body.List, obj)})
			}
		}
	}
	// Flatten by-value / pointer (non-repeated) helper structs that are not Nodes into dotted paths,
	// then normalise each Children() entry to the set of flattened paths its selector chains cover
	// (a chain covers a path when it equals it or is a proper dotted prefix of it).
	byName := map[string]*SchemaType{}
	for i := range out.Schema {
		byName[out.Schema[i].Name] = &out.Schema[i]
	}
	var flatten func(fs []SchemaField, prefix string, depth int) []SchemaField
	flatten = func(fs []SchemaField, prefix string, depth int) []SchemaField {
		var res []SchemaField
		for _, f := range fs {
			if f.Kind == "struct" && !f.Rep && !f.Ptr && depth < 4 {
				if st := byName[f.Elem]; st != nil && !st.IsNode {
					res = append(res, flatten(st.Fields, prefix+f.Name+".", depth+1)...)
					continue
				}
			}
			g := f
			g.Name = prefix + f.Name
			res = append(res, g)
		}
		return res
	}
	flat := make([]SchemaType, len(out.Schema))
	for i, st := range out.Schema {
		flat[i] = SchemaType{Name: st.Name, IsNode: st.IsNode, Fields: flatten(st.Fields, "", 0)}
	}
	out.Schema = flat
	byName = map[string]*SchemaType{}
	for i := range out.Schema {
		byName[out.Schema[i].Name] = &out.Schema[i]
	}
	for i, ce := range out.Children {
		covered := map[string]bool{}
		if st := byName[ce.Type]; st != nil {
			for _, f := range st.Fields {
				for _, ch := range ce.Fields {
					if f.Name == ch || strings.HasPrefix(f.Name, ch+".") {
						covered[f.Name] = true
					}
				}
			}
		}
		out.Children[i].Fields = sortedKeys(covered)
	}
	sort.Slice(out.Children, func(i, j int) bool { return out.Children[i].Type < out.Children[j].Type })
	sort.Slice(out.Pools, func(i, j int) bool { return out.Pools[i].Site < out.Pools[j].Site })
	return out, nil
}

// clearedFields returns the fields F of variable obj for which the statements contain an
// unconditional-looking assignment obj.F = <zero value> or obj.F = obj.F[:0]
// (assignments nested in if/for blocks are counted too: the dynamic probe validates the table).
func clearedFields(p *packages.Package, stmts []ast.Stmt, obj types.Object) []string {
	set := map[string]bool{}
	if obj == nil {
		return nil
	}
	isObj := func(e ast.Expr) bool {
		id, ok := e.(*ast.Ident)
		return ok && (p.TypesInfo.Uses[id] == obj || p.TypesInfo.Defs[id] == obj)
	}
	var visit func(n ast.Node) bool
	visit = func(n ast.Node) bool {
		as, ok := n.(*ast.AssignStmt)
		if !ok || len(as.Lhs) != 1 || len(as.Rhs) != 1 || as.Tok != token.ASSIGN {
			return true
		}
		se, ok := as.Lhs[0].(*ast.SelectorExpr)
		if !ok || !isObj(se.X) {
			return true
		}
		if isZeroExpr(p, as.Rhs[0]) {
			set[se.Sel.Name] = true
			return true
		}
		// obj.F = obj.F[:0]
		if sl, ok := as.Rhs[0].(*ast.SliceExpr); ok && sl.Low == nil && sl.High != nil {
			if bl, ok := sl.High.(*ast.BasicLit); ok && bl.Value == "0" {
				if se2, ok := sl.X.(*ast.SelectorExpr); ok && isObj(se2.X) && se2.Sel.Name == se.Sel.Name {
					set[se.Sel.Name] = true
				}
			}
		}
		return true
	}
	for _, s := range stmts {
		ast.Inspect(s, visit)
	}
	return sortedKeys(set)
}

func isZeroExpr(p *packages.Package, e ast.Expr) bool {
	switch x := e.(type) {
	case *ast.Ident:
		return x.Name == "nil" || x.Name == "false"
	case *ast.BasicLit:
		return x.Value == `""` || x.Value == "0" || x.Value == "``" || x.Value == "0.0"
	case *ast.CompositeLit:
		return len(x.Elts) == 0
	}
	return false
}

func sortedKeys(m map[string]bool) []string {
	ks := make([]string, 0, len(m))
	for k := range m {
		ks = append(ks, k)
	}
	sort.Strings(ks)
	return ks
}

// ---------------------------------------------------------------------------------------------
// Lean emission helpers

func leanStr(s string) string {
	var b strings.Builder
	b.WriteByte('"')
	for _, r := range s {
		switch {
		case r == '"':
			b.WriteString("\\\"")
		case r == '\\':
			b.WriteString("\\\\")
		case r == '\n':
			b.WriteString("\\n")
		case r == '\t':
			b.WriteString("\\t")
		case r == '\r':
			b.WriteString("\\r")
		case r < 0x20 || r == 0x7f:
			fmt.Fprintf(&b, "\\x%02x", r)
		default:
			b.WriteRune(r)
		}
	}
	b.WriteByte('"')
	return b.String()
}

func leanStrList(xs []string) string {
	qs := make([]string, len(xs))
	for i, x := range xs {
		qs[i] = leanStr(x)
	}
	return "[" + strings.Join(qs, ", ") + "]"
}

func leanBool(b bool) string {
	if b {
		return "true"
	}
	return "false"
}

func writeIfChanged(path string, content []byte) (bool, error) {
	old, err := os.ReadFile(path)
	if err == nil && string(old) == string(content) {
		return false, nil
	}
	if err := os.MkdirAll(filepath.Dir(path), 0o755); err != nil {
		return false, err
	}
	return true, os.WriteFile(path, content, 0o644)
}

func writeJSON(path string, v any) error {
	b, err := json.MarshalIndent(v, "", " ")
	if err != nil {
		return err
	}
	_, err = writeIfChanged(path, append(b, '\n'))
	return err
}

const genHeader = "-- GENERATED by `vx extract` from /repo's working tree. Do not edit; rewritten on every check run.\n"

func emitAstLean(t *AstTables, dir string) error {
	var b strings.Builder
	b.WriteString(genHeader)
	b.WriteString("namespace GoSQLXModel.Gen\n\n")
	b.WriteString("/-- (type, isNode, fields as (name, elemType, kind, repeated)) for every struct type of pkg/sql/ast -/\n")
	b.WriteString("def astSchema : List (String × Bool × List (String × String × String × Bool)) := [\n")
	for i, s := range t.Schema {
		fs := make([]string, len(s.Fields))
		for j, f := range s.Fields {
			fs[j] = fmt.Sprintf("(%s, %s, %s, %s)", leanStr(f.Name), leanStr(f.Elem), leanStr(f.Kind), leanBool(f.Rep))
		}
		sep := ","
		if i == len(t.Schema)-1 {
			sep = ""
		}
		fmt.Fprintf(&b, "  (%s, %s, [%s])%s\n", leanStr(s.Name), leanBool(s.IsNode), strings.Join(fs, ", "), sep)
	}
	b.WriteString("]\n\n")
	b.WriteString("/-- per Children() method: receiver fields mentioned in its body -/\n")
	b.WriteString("def childrenTable : List (String × List String) := [\n")
	for i, c := range t.Children {
		sep := ","
		if i == len(t.Children)-1 {
			sep = ""
		}
		fmt.Fprintf(&b, "  (%s, %s)%s\n", leanStr(c.Type), leanStrList(c.Fields), sep)
	}
	b.WriteString("]\n\n")
	b.WriteString("/-- per pool-return site: (site, element type, fields assigned a zero value or truncated) -/\n")
	b.WriteString("def poolSites : List (String × String × List String) := [\n")
	for i, c := range t.Pools {
		sep := ","
		if i == len(t.Pools)-1 {
			sep = ""
		}
		fmt.Fprintf(&b, "  (%s, %s, %s)%s\n", leanStr(c.Site), leanStr(c.Type), leanStrList(c.Cleared), sep)
	}
	b.WriteString("]\n\nend GoSQLXModel.Gen\n")
	_, err := writeIfChanged(filepath.Join(dir, "AstTables.lean"), []byte(b.String()))
	return err
}
