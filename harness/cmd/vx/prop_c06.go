package main

import (
	"encoding/hex"
	"encoding/json"
	"fmt"
	"os"
	"regexp"
	"strings"

	clicmd "github.com/ajitpratap0/GoSQLX/cmd/gosqlx/cmd"
	"github.com/ajitpratap0/GoSQLX/pkg/formatter"
	"github.com/ajitpratap0/GoSQLX/pkg/gosqlx"
	"github.com/ajitpratap0/GoSQLX/pkg/sql/ast"
	"github.com/ajitpratap0/GoSQLX/pkg/sql/tokenizer"
)

func init() { props["C06"] = runC06 }

func neg01(b bool) string {
	if b {
		return "1"
	}
	return "0"
}

// unblank: a blank-separated list of hex-encoded literals as one string without the blanks inside the literals
// (the tokenizer may deliver IS NOT NULL, NOT NULL … as one token or several)
func unblank(hexes string) string {
	var sb strings.Builder
	for _, h := range strings.Fields(hexes) {
		b, _ := hex.DecodeString(h)
		sb.WriteString(strings.ReplaceAll(string(b), " ", ""))
	}
	return sb.String()
}

type serialiser struct {
	name string
	// from the parsed tree (preferred) or from the text
	tree func(t *ast.AST) (string, error)
	text func(sql string) (string, error)
	// output of the serialiser fed back must reproduce itself (formatters)
	idempotent bool
}

func c06Serialisers() []serialiser {
	var out []serialiser
	out = append(out, serialiser{name: "ast.SQL", tree: func(t *ast.AST) (string, error) { return t.SQL(), nil }, idempotent: true})
	i := 0
	for _, kc := range []ast.KeywordCase{ast.KeywordUpper, ast.KeywordLower, ast.KeywordPreserve} {
		for _, nl := range []bool{false, true} {
			for _, semi := range []bool{false, true} {
				o := ast.FormatOptions{KeywordCase: kc, NewlinePerClause: nl, AddSemicolon: semi, IndentWidth: 2 + i%3}
				if i%2 == 1 {
					o.IndentStyle = ast.IndentTabs
				}
				i++
				oo := o
				out = append(out, serialiser{name: fmt.Sprintf("ast.Format{kw=%d,nl=%v,semi=%v}", kc, nl, semi),
					tree: func(t *ast.AST) (string, error) { return t.Format(oo), nil }, idempotent: true})
			}
		}
	}
	out = append(out, serialiser{name: "ast.Format{compact}", tree: func(t *ast.AST) (string, error) { return t.Format(ast.CompactStyle()), nil }, idempotent: true})
	out = append(out, serialiser{name: "ast.Format{readable}", tree: func(t *ast.AST) (string, error) { return t.Format(ast.ReadableStyle()), nil }, idempotent: true})
	for _, up := range []bool{false, true} {
		for _, semi := range []bool{false, true} {
			o := gosqlx.DefaultFormatOptions()
			o.UppercaseKeywords, o.AddSemicolon = up, semi
			oo := o
			out = append(out, serialiser{name: fmt.Sprintf("gosqlx.Format{upper=%v,semi=%v}", up, semi), text: func(s string) (string, error) { return gosqlx.Format(s, oo) }, idempotent: true})
		}
	}
	for _, up := range []bool{false, true} {
		for _, compact := range []bool{false, true} {
			o := formatter.Options{IndentSize: 2, Uppercase: up, Compact: compact}
			out = append(out, serialiser{name: fmt.Sprintf("formatter.Format{upper=%v,compact=%v}", up, compact), text: func(s string) (string, error) { return formatter.New(o).Format(s) }, idempotent: true})
		}
	}
	for _, up := range []bool{false, true} {
		for _, compact := range []bool{false, true} {
			o := clicmd.FormatterOptions{Indent: "  ", Compact: compact, UppercaseKw: up}
			out = append(out, serialiser{name: fmt.Sprintf("cli.SQLFormatter{upper=%v,compact=%v}", up, compact),
				tree: func(t *ast.AST) (string, error) { return clicmd.NewSQLFormatter(o).Format(t) }, idempotent: true})
		}
	}
	return out
}

var (
	strAtom   = regexp.MustCompile(`\(str [0-9a-f]*\)`)
	nodeStart = regexp.MustCompile(`\((node|struct) ?([A-Za-z]*)`)
)

// normTree: the dump of a tree with operator / keyword words folded to upper case (the property's
// "equal up to the letter case of keywords and operator words"): string values of fields named Operator,
// Type, Quantifier, Action …; identifiers and literals keep their spelling.
func normTree(t *ast.AST) string {
	d := dumpNode(t)
	return foldKeywordFields(d)
}

var kwField = regexp.MustCompile(`\((Operator|Type|JoinType|Direction|ActionType|Kind|LockType|Quantifier|Modifier|SetType|Style) \(str "(?:[^"\\]|\\.)*"\)\)`)

func foldKeywordFields(d string) string {
	return kwField.ReplaceAllStringFunc(d, func(m string) string { return strings.ToUpper(m) })
}

// firstDiffContext: the innermost node type and field enclosing the first difference of two dumps
func firstDiffContext(a, b string) string {
	i := 0
	for i < len(a) && i < len(b) && a[i] == b[i] {
		i++
	}
	// walk a[:i] keeping a stack of node types
	var stack []string
	depth := []int{}
	d := 0
	pre := a[:i]
	for k := 0; k < len(pre); k++ {
		switch pre[k] {
		case '(':
			d++
			rest := pre[k+1:]
			if strings.HasPrefix(rest, "node ") {
				j := strings.IndexAny(rest[5:], " )")
				if j > 0 {
					stack = append(stack, rest[5:5+j])
					depth = append(depth, d)
				}
			}
		case ')':
			if len(depth) > 0 && depth[len(depth)-1] == d {
				stack = stack[:len(stack)-1]
				depth = depth[:len(depth)-1]
			}
			d--
		case '"':
			// skip a quoted string
			k++
			for k < len(pre) && pre[k] != '"' {
				if pre[k] == '\\' {
					k++
				}
				k++
			}
		}
	}
	if len(stack) == 0 {
		return "top"
	}
	return stack[len(stack)-1]
}

func runC06(c *runCtx) {
	res := c.res
	sers := c06Serialisers()
	res.Rule = fmt.Sprintf("every accepted input (model-grammar queries and DML with redundant parentheses, the name-placement generator's statements incl. MERGE / ON CONFLICT / windows / CTEs / set operations, the repository's SQL corpus, the built-in corpus) x %d serialiser configurations (AST.SQL; AST.Format over keyword case x newline-per-clause x semicolon x indent style/width, compact and readable presets; gosqlx.Format; formatter.Format; the CLI formatter): the output must be accepted, its tree must equal the original tree up to the letter case of keyword/operator words (reflection dump, field by field), and serialising the re-parsed tree must reproduce the output (formatting stable); failures are keyed by serialiser family and the node type at the first difference (distinct = distinct inputs)", len(sers))
	var inputs []string
	g := newSQLGen(c.rng.Fork())
	for i := 0; i < c.n(1500, 20000); i++ {
		g.Plain = i%3 == 0
		inputs = append(inputs, g.Statement())
	}
	cg := &c15gen{r: c.rng.Fork()}
	for i := 0; i < c.n(1200, 15000); i++ {
		s, _ := cg.Statement()
		inputs = append(inputs, s)
	}
	nGenerated := len(inputs) // the catalogue and the repository corpus go through every configuration in both tiers
	// deep and wide statements (operator chains, towers of derived tables / sub-queries / calls / CASEs, wide lists, long
	// set-operation and join chains): a serialiser must write all of a tree, however deep
	for _, size := range []int{40, 130} {
		for fam := 0; fam < c15DeepFamilies; fam++ {
			s, _ := cg.deep(fam, size)
			inputs = append(inputs, s)
		}
	}
	inputs = append(inputs, builtinCorpus...)
	inputs = append(inputs, repoCorpus()...)
	inputs = append(inputs, c06HostileLists()...)
	// the node types the CLI formatter knows (regenerated from its source)
	cliCases := map[string][]string{}
	if raw, err := os.ReadFile(verifDir + "/gen/cli_formatter.json"); err == nil {
		_ = json.Unmarshal(raw, &cliCases)
	}
	cliKnown := map[string]bool{}
	for _, xs := range cliCases {
		for _, x := range xs {
			cliKnown[x] = true
		}
	}
	// helper structs the CLI formatter reaches through its statement cases
	for _, x := range []string{"AST", "TableReference", "JoinClause", "OrderByExpression", "WhenClause", "WithClause", "CommonTableExpr", "UpdateExpression", "WindowSpec", "WindowFrame", "WindowFrameBound",
		"ColumnDef", "ColumnConstraint", "TableConstraint", "AlterTableOperation", "AlterTableAction", "MergeWhenClause", "MergeAction", "SetClause", "OnConflict", "UpsertClause", "ReferenceDefinition", "IndexColumn", "TableOption"} {
		cliKnown[x] = true
	}
	// cliCause names the construct behind a CLI-formatter failure: a node type it has no case for, missing
	// parentheses (its text equals AST.SQL's up to parentheses, blanks and letter case), or the symptom
	unparen := strings.NewReplacer("(", " ", ")", " ")
	squash := func(s string) string { return strings.Join(strings.Fields(strings.ToUpper(unparen.Replace(s))), " ") }
	cliCause := func(t *ast.AST, out string, symptom string) string {
		unknown := ""
		ast.Inspect(t, func(n ast.Node) bool {
			if n == nil || unknown != "" {
				return unknown == ""
			}
			name := fmt.Sprintf("%T", n)
			name = strings.TrimPrefix(strings.TrimPrefix(name, "*"), "ast.")
			if !cliKnown[name] {
				unknown = name
				return false
			}
			return true
		})
		if unknown != "" {
			return "no-case-for:" + unknown
		}
		if squash(out) == squash(strings.ReplaceAll(t.SQL(), " AS ", " ")) || squash(strings.ReplaceAll(out, " as ", " ")) == squash(strings.ReplaceAll(t.SQL(), " AS ", " ")) {
			return "missing-parentheses"
		}
		return "other:" + symptom
	}
	// the serialiser's parenthesisation rule: Lean model (driver op print) against BinaryExpression.SQL /
	// UnaryExpression.SQL on model expressions of the ladder's core
	if drv := c.driver(); drv != nil {
		pg := newSQLGen(c.rng.Fork())
		pg.reset()
		opName := func(op string) string {
			switch op {
			case "OR":
				return "or"
			case "AND":
				return "and"
			case "||":
				return "cat"
			case "+":
				return "plus"
			case "-":
				return "minus"
			case "*":
				return "star"
			case "/":
				return "div"
			case "%":
				return "mod"
			}
			return "cmp"
		}
		hx := func(s string) string { return hex.EncodeToString([]byte(s)) }
		var prefix func(e *GExpr, sb *strings.Builder)
		prefix = func(e *GExpr, sb *strings.Builder) {
			switch e.K {
			case "bin":
				sb.WriteString("B " + opName(e.Op) + " " + hx(e.Op) + " ")
				prefix(e.A[0], sb)
				prefix(e.A[1], sb)
			case "not":
				sb.WriteString("N " + hx("NOT") + " ")
				prefix(e.A[0], sb)
			case "func":
				sb.WriteString("C " + hx(e.Op) + " " + fmt.Sprint(len(e.A)) + " ")
				for _, a := range e.A {
					prefix(a, sb)
				}
			case "isnull":
				sb.WriteString("I " + neg01(e.Not) + " ")
				prefix(e.A[0], sb)
			case "between":
				sb.WriteString("W " + neg01(e.Not) + " ")
				prefix(e.A[0], sb)
				prefix(e.A[1], sb)
				prefix(e.A[2], sb)
			case "like":
				sb.WriteString("L " + neg01(e.Not) + " " + hx(e.Op) + " ")
				prefix(e.A[0], sb)
				prefix(e.A[1], sb)
			case "inlist":
				sb.WriteString("S " + neg01(e.Not) + " " + fmt.Sprint(len(e.A)-1) + " ")
				for _, a := range e.A {
					prefix(a, sb)
				}
			case "ident":
				sb.WriteString("A ident " + hx(e.Name) + " ")
			case "num":
				sb.WriteString("A num " + hx(e.Name) + " ")
			case "str":
				sb.WriteString("A str " + hx(e.Name) + " ")
			case "bool":
				sb.WriteString("A bool " + hx(e.Name) + " ")
			default:
				sb.WriteString("A null " + hx("NULL") + " ")
			}
		}
		var core func(d int) *GExpr
		core = func(d int) *GExpr {
			if d <= 0 || pg.r.Intn(5) == 0 {
				if pg.r.Chance(60) {
					return &GExpr{K: "ident", Name: pg.r.Pick(pg.cols)}
				}
				switch pg.r.Intn(3) {
				case 0:
					return &GExpr{K: "num", Name: fmt.Sprint(pg.r.Intn(100))}
				case 1:
					return &GExpr{K: "str", Name: pg.r.Pick([]string{"x", "a b", "it's"})}
				}
				return &GExpr{K: "bool", Name: pg.r.Pick([]string{"TRUE", "FALSE"})}
			}
			switch pg.r.Intn(13) {
			case 8:
				return &GExpr{K: "isnull", Not: pg.r.Bool(), A: []*GExpr{core(d - 1)}}
			case 9:
				return &GExpr{K: "between", Not: pg.r.Bool(), A: []*GExpr{core(d - 1), core(d - 1), core(d - 1)}}
			case 10:
				return &GExpr{K: "like", Op: pg.r.Pick([]string{"LIKE", "ILIKE"}), Not: pg.r.Bool(), A: []*GExpr{core(d - 1), core(d - 1)}}
			case 11:
				xs := []*GExpr{core(d - 1)}
				for k := 0; k < 1+pg.r.Intn(3); k++ {
					xs = append(xs, core(d-1))
				}
				return &GExpr{K: "inlist", Not: pg.r.Bool(), A: xs}
			case 12:
				var xs []*GExpr
				for k := 0; k < pg.r.Intn(4); k++ {
					xs = append(xs, core(d-1))
				}
				return &GExpr{K: "func", Op: pg.r.Pick([]string{"f", "COALESCE", "lower", "Abs", "nullif"}), A: xs}
			case 0:
				return &GExpr{K: "not", A: []*GExpr{core(d - 1)}}
			case 1, 2:
				return &GExpr{K: "bin", Op: pg.r.Pick([]string{"AND", "OR"}), A: []*GExpr{core(d - 1), core(d - 1)}}
			case 3, 4:
				return &GExpr{K: "bin", Op: pg.r.Pick(cmpOps), A: []*GExpr{core(d - 1), core(d - 1)}}
			}
			return &GExpr{K: "bin", Op: pg.r.Pick(arithOps), A: []*GExpr{core(d - 1), core(d - 1)}}
		}
		for i := 0; i < c.n(2500, 80000); i++ {
			pg.Plain = true
			e := core(1 + pg.r.Intn(5))
			sql := "SELECT " + pg.renderExpr(e, 1) + " FROM t"
			tree, err := gosqlx.Parse(sql)
			if err != nil {
				continue
			}
			sel, ok := tree.Statements[0].(*ast.SelectStatement)
			if !ok || len(sel.Columns) != 1 || realExpr(sel.Columns[0]) != e.canon() {
				ast.ReleaseAST(tree)
				continue // C03's business
			}
			written := sel.Columns[0].(interface{ SQL() string }).SQL()
			ast.ReleaseAST(tree)
			// literals of the written text
			tk, _ := tokenizer.New()
			mt, terr := tk.Tokenize([]byte(written))
			if terr != nil {
				continue
			}
			var lits []string
			for _, t := range mt[:len(mt)-1] {
				lits = append(lits, hx(t.Token.Value))
			}
			var sb strings.Builder
			prefix(e, &sb)
			ans, derr := drv.Ask("print", strings.TrimSpace(sb.String()))
			if derr != nil {
				continue
			}
			res.CorrCases++
			if unblank(ans) != unblank(strings.Join(lits, " ")) {
				res.corrFail("print-model", "Lean serialiser rule differs from BinaryExpression.SQL / UnaryExpression.SQL", map[string]any{"model_tree": e.canon()}, map[string]any{"real_text": written, "model": ans, "real": strings.Join(lits, " ")})
			}
		}
	}
	family := serFamily
	c06Names(c, sers)
	for idx, x := range inputs {
		t0, err := gosqlx.Parse(x)
		if err != nil {
			continue
		}
		res.count(x, true)
		d0 := normTree(t0)
		if idx < 3 {
			res.sample(map[string]any{"sql": clip(x, 200), "ast.SQL": clip(t0.SQL(), 200)})
		}
		for si, s := range sers {
			if c.quick && idx < nGenerated && idx%4 != 0 && si%5 != idx%5 && s.name != "ast.SQL" {
				continue // quick: every input through AST.SQL, a rotating fifth of the other configurations
			}
			var y string
			var serr error
			if s.tree != nil {
				y, serr = s.tree(t0)
			} else {
				y, serr = s.text(x)
			}
			wit := map[string]any{"sql": clip(x, 500), "serialiser": s.name}
			if serr != nil {
				res.fail("serialiser-error:"+family(s.name), "the serialiser fails on an accepted input", wit, map[string]any{"error": clip(serr.Error(), 200)})
				continue
			}
			t1, perr := gosqlx.Parse(y)
			if perr != nil {
				// which construct? use the node type that the error position falls in is unknown: key by the error's expectation
				if cause := rejectCauseOut(x, y, perr); cause != "" {
					res.fail("reparse-rejected:"+family(s.name)+":"+cause, "the serialised text is not accepted", wit, map[string]any{"output": clip(y, 500), "error": strings.SplitN(perr.Error(), "\n", 2)[0]})
					continue
				}
				if strings.HasPrefix(s.name, "cli.") {
					res.fail("cli-formatter:"+cliCause(t0, y, "rejected-"+rejectClass(perr)), "the CLI formatter's output is not accepted", wit, map[string]any{"output": clip(y, 500), "error": strings.SplitN(perr.Error(), "\n", 2)[0]})
					continue
				}
				if bare := stripLineComments(y); strings.TrimSpace(strings.Trim(strings.TrimSpace(bare), ";")) == "" || len(strings.Fields(bare)) <= 2 {
					// nothing (or only the statement's keyword) was written: this statement kind has no serialiser
					kind := "?"
					if len(t0.Statements) > 0 {
						kind = strings.TrimPrefix(fmt.Sprintf("%T", t0.Statements[0]), "*ast.")
					}
					res.fail("no-serialiser:"+family(s.name)+":"+kind, "the serialiser writes nothing for this statement kind", wit, map[string]any{"output": clip(y, 200)})
					continue
				}
				res.fail("reparse-rejected:"+family(s.name)+":"+rejectClass(perr), "the serialised text is not accepted", wit, map[string]any{"output": clip(y, 500), "error": strings.SplitN(perr.Error(), "\n", 2)[0]})
				continue
			}
			d1 := normTree(t1)
			if d1 != d0 && strings.HasPrefix(s.name, "cli.") {
				res.fail("cli-formatter:"+cliCause(t0, y, "tree-"+firstDiffContext(d0, d1)), "re-parsing the CLI formatter's output gives another tree", wit, map[string]any{"output": clip(y, 500)})
			} else if d1 != d0 && strings.Contains(diffSnippet(d0, d1), "(node UnaryExpression (Operator (int 2)) (Expr (node ExistsExpression") &&
				strings.Contains(diffSnippet(d1, d0), "(node BinaryExpression (Left (node ExistsExpression") {
				// NOT (EXISTS (...)) is a unary NOT; its text NOT EXISTS (...) re-parses to the dedicated NOT EXISTS shape
				res.fail("tree-changed:"+family(s.name)+":not-exists-representation", "NOT over EXISTS has two tree shapes; writing the unary one and re-parsing gives the other", wit, map[string]any{"output": clip(y, 300)})
			} else if d1 != d0 {
				res.fail("tree-changed:"+family(s.name)+":"+firstDiffContext(d0, d1), "re-parsing the serialised text gives another tree", wit, map[string]any{"output": clip(y, 500), "original_at_diff": diffSnippet(d0, d1), "reparsed_at_diff": diffSnippet(d1, d0)})
			} else if s.idempotent {
				var z string
				if s.tree != nil {
					z, _ = s.tree(t1)
				} else {
					z, _ = s.text(y)
				}
				if z != y {
					res.fail("not-stable:"+family(s.name), "formatting the formatted text changes it again", wit, map[string]any{"first": clip(y, 300), "second": clip(z, 300)})
				}
			}
			ast.ReleaseAST(t1)
		}
		ast.ReleaseAST(t0)
	}
}

func stripLineComments(s string) string {
	var out []string
	for _, l := range strings.Split(s, "\n") {
		if !strings.HasPrefix(strings.TrimSpace(l), "--") {
			out = append(out, l)
		}
	}
	return strings.Join(out, "\n")
}

func diffSnippet(a, b string) string {
	i := 0
	for i < len(a) && i < len(b) && a[i] == b[i] {
		i++
	}
	lo := i - 80
	if lo < 0 {
		lo = 0
	}
	return clip(a[lo:], 200)
}

var quotedIdent = regexp.MustCompile("[\"`]([A-Za-z_][A-Za-z0-9_]*)[\"`]")

// rejectCause names why a serialised text is rejected when that is recognisable: a quoted identifier that is a
// reserved word was written without its quotes, or a string literal with a backslash was written unescaped
func rejectCause(input string, perr error) string {
	return rejectCauseOut(input, "", perr)
}

var reservedWordSet map[string]bool

// rejectCauseOut: as rejectCause, also looking at the text that was rejected: a quoted identifier of the input that is
// a word of the grammar and stands bare in the output is the cause, named with the position it stands in
func rejectCauseOut(input, output string, perr error) string {
	msg := perr.Error()
	if strings.Contains(msg, "invalid escape sequence") {
		return "string-backslash"
	}
	if reservedWordSet == nil {
		reservedWordSet = map[string]bool{}
		for _, w := range parserWords() {
			reservedWordSet[w] = true
		}
	}
	m := regexp.MustCompile(`unexpected token: [A-Z_]+ \('([^']*)'\)`).FindStringSubmatch(msg)
	for _, loc := range quotedIdent.FindAllStringSubmatchIndex(input, -1) {
		word := input[loc[2]:loc[3]]
		named := m != nil && strings.EqualFold(word, m[1])
		bare := false
		if output != "" && reservedWordSet[strings.ToUpper(word)] && !strings.Contains(output, input[loc[0]:loc[1]]) {
			bare = regexp.MustCompile(`(?i)(^|[^A-Za-z0-9_"` + "`" + `])` + regexp.QuoteMeta(word) + `($|[^A-Za-z0-9_"` + "`" + `])`).MatchString(output)
		}
		if !named && !bare {
			continue
		}
		// where the quoted reserved word stands
		before := strings.Fields(strings.ToUpper(input[:loc[0]]))
		pos := "column"
		if n := len(before); n > 0 {
			last := before[n-1]
			clause := ""
			for i := n - 1; i >= 0 && clause == ""; i-- {
				switch before[i] {
				case "SELECT", "RETURNING", "SET", "WHERE", "ON", "BY", "HAVING", "VALUES":
					clause = "list"
				case "FROM", "JOIN", "INTO", "UPDATE", "TABLE", "USING":
					clause = "table"
				}
			}
			switch {
			case last == "AS" && clause == "table":
				pos = "table-alias"
			case last == "AS":
				pos = "column-alias"
			case last == "FROM" || last == "JOIN" || last == "INTO" || last == "UPDATE" || last == "TABLE" || last == "USING":
				pos = "table"
			case strings.HasSuffix(last, "."):
				pos = "qualified-column"
			}
		}
		if strings.HasSuffix(strings.TrimSpace(input[:loc[0]]), ".") {
			pos = "qualified-column"
		}
		return "reserved-word-identifier:" + pos
	}
	return ""
}

var gotWord = regexp.MustCompile(`got ([A-Z_]+)|unexpected token: ([A-Z_]+)`)

func rejectClass(err error) string {
	m := gotWord.FindStringSubmatch(err.Error())
	if m != nil {
		if m[1] != "" {
			return strings.ToLower(m[1])
		}
		return strings.ToLower(m[2])
	}
	return "other"
}

// name places and spellings: every place a name is written x the spellings a name can need quotes for. A place is the
// call site that writes the name (column / qualified column go through Identifier.SQL, the others write their own).
type c06Place struct{ kind, sql string }

var c06Places = []c06Place{
	{"column", "SELECT {N} FROM t"}, {"column", "SELECT a FROM t WHERE {N} = 1"}, {"column", "SELECT a FROM t ORDER BY {N} DESC"}, {"column", "SELECT a FROM t GROUP BY {N}"},
	{"column", "SELECT SUM({N}) OVER (PARTITION BY {N}) FROM t"}, {"column", "SELECT CASE WHEN {N} = 1 THEN {N} END FROM t"}, {"column", "DELETE FROM t WHERE a = 1 RETURNING {N}"},
	{"qualified-column", "SELECT u.{N} FROM users u"}, {"qualified-column", "SELECT a FROM t WHERE u.{N} = 1"}, {"qualified-column", "SELECT a FROM t JOIN u ON t.{N} = u.{N}"},
	{"qualified-column", "SELECT COUNT(DISTINCT u.{N}), CAST(u.{N} AS INT) FROM t GROUP BY u.{N}"}, {"qualified-column", "UPDATE t SET a = 1 WHERE t.{N} = 2"},
	{"qualified-column", "INSERT INTO t (a) SELECT u.{N} FROM u"}, {"qualified-column", "SELECT u.{N} IN (1, 2), u.{N} BETWEEN 1 AND 2 FROM t ORDER BY u.{N}"},
	{"column-qualifier", "SELECT {N}.qty FROM t"}, {"column-qualifier", "SELECT a FROM t WHERE {N}.id = 1"}, {"column-qualifier", "SELECT {N}.* FROM t"},
	{"column-alias", "SELECT a AS {N} FROM t"}, {"table", "SELECT a FROM {N}"}, {"table", "SELECT a FROM t JOIN {N} ON 1 = 1"}, {"table", "DELETE FROM {N} WHERE a = 1"},
	{"table", "UPDATE {N} SET a = 1"}, {"table", "INSERT INTO {N} (a) VALUES (1)"}, {"table", "SELECT a FROM s.{N}"}, {"table-alias", "SELECT a FROM t AS {N}"}, {"table-alias", "SELECT a FROM t {N}"},
	{"table-alias", "SELECT a FROM (SELECT b FROM u) {N}"}, {"insert-column", "INSERT INTO t ({N}, b) VALUES (1, 2)"}, {"cte-column-list", "WITH c ({N}) AS (SELECT 1) SELECT 2 FROM c"},
	{"assignment-target", "UPDATE t SET {N} = 1"}, {"cte-name", "WITH {N} AS (SELECT 1) SELECT 2 FROM t"}, {"ddl-name", "CREATE TABLE {N} (a INT)"}, {"ddl-name", "DROP TABLE {N}"},
	{"ddl-name", "CREATE VIEW {N} AS SELECT 1"}, {"ddl-column", "CREATE TABLE t ({N} INT, b TEXT)"}, {"ddl-name", "CREATE INDEX {N} ON t (a)"},
}

var c06Spellings = []struct{ class, name string }{
	{"plain", `plain_name`}, {"quoted-plain", `"quoted_plain"`}, {"blank", `"first name"`}, {"dash", `"order-items"`}, {"dot", `"a.b"`}, {"upper-and-blank", `"Mixed Case"`},
	{"digit-first", `"1st"`}, {"quote-inside", `"x""y"`}, {"non-ascii", `"naïve col"`}, {"punctuation", `"a;b"`}, {"blank", `"with  two blanks"`}, {"dash", `"x-1"`}, {"punctuation", `"a, b"`}, {"punctuation", `"x) , (y"`}, {"punctuation", `"--"`},
}

// identifierPlaces: the places whose name is written by Identifier.SQL (which quotes what it takes for unsafe); the other
// places write the stored name as it is
var c06IdentifierPlaces = map[string]bool{"column": true, "qualified-column": true, "column-qualifier": true, "assignment-target": true, "insert-column": true}

func c06Names(c *runCtx, sers []serialiser) {
	res := c.res
	// the quoting rule itself: Lean's safeIdentifier (driver op qname; theorem quoted_name_reads_back) against
	// Identifier.SQL on ASCII names over a hostile alphabet, and the read-back on the implementation: a name the
	// serialiser quotes is one token whose value is the name
	if drv := c.driver(); drv != nil {
		r := c.rng.Fork()
		alphabet := []byte("abzAZ09_*. -\"\"';\\\t/()")
		for i := 0; i < c.n(2500, 40000); i++ {
			n := 1 + r.Intn(7)
			name := make([]byte, n)
			for j := range name {
				name[j] = alphabet[r.Intn(len(alphabet))]
			}
			real := (&ast.Identifier{Name: string(name)}).SQL()
			ans, err := drv.Ask("qname", hex.EncodeToString(name))
			if err != nil {
				break
			}
			res.CorrCases++
			res.count("qname|"+string(name), true)
			if ans != hex.EncodeToString([]byte(real)) {
				res.corrFail("safe-identifier-model", "Lean safeIdentifier differs from Identifier.SQL on this name", map[string]any{"name": string(name)}, map[string]any{"model_hex": ans, "real": real})
				continue
			}
			if strings.HasPrefix(real, "\"") {
				tk, _ := tokenizer.New()
				toks, terr := tk.Tokenize([]byte(real))
				if terr != nil || len(toks) != 2 || toks[0].Token.Value != string(name) {
					got := fmt.Sprint(terr)
					if terr == nil {
						got = fmt.Sprintf("%d tokens, first %q", len(toks)-1, toks[0].Token.Value)
					}
					res.fail("quoted-name-not-read-back", "a name the serialiser writes between quotes is not read back as one token holding the name", map[string]any{"name": string(name), "written": real}, map[string]any{"got": got})
				}
			}
		}
	}
	for _, pl := range c06Places {
		for _, sp := range c06Spellings {
			x := strings.ReplaceAll(pl.sql, "{N}", sp.name)
			t0, err := gosqlx.Parse(x)
			if err != nil {
				res.stat("name-place-rejected:" + pl.kind)
				continue
			}
			res.count("names|"+x, true)
			d0 := normTree(t0)
			site := pl.kind
			if c06IdentifierPlaces[pl.kind] {
				site += ":" + sp.class
			} else if sp.class == "plain" || sp.class == "quoted-plain" {
				site += ":" + sp.class
			}
			for _, s := range sers {
				if strings.HasPrefix(s.name, "cli.") {
					continue // the CLI formatter writes every name bare (recorded under its own keys)
				}
				var y string
				if s.tree != nil {
					y, _ = s.tree(t0)
				} else {
					y, _ = s.text(x)
				}
				ok := false
				if t1, perr := gosqlx.Parse(y); perr == nil {
					ok = normTree(t1) == d0
					ast.ReleaseAST(t1)
				}
				if ok {
					res.stat("name-kept:" + site)
					if os.Getenv("VX_VERBOSE") != "" && s.name == "ast.SQL" && !c06IdentifierPlaces[pl.kind] && !strings.HasSuffix(site, "plain") {
						fmt.Println("KEPT", x, "=>", y)
					}
					continue
				}
				wit := map[string]any{"sql": x, "serialiser": s.name, "place": pl.kind, "spelling": sp.class}
				if sp.class != "plain" && !strings.Contains(y, sp.name) {
					res.fail("name-written-bare:"+site, "a name that needs its quotes is written without them (or quoted together with its qualifier): the text is rejected or names something else", wit, map[string]any{"output": clip(y, 300)})
				} else {
					res.fail("name-place:"+serFamily(s.name)+":"+site, "the serialised text of a statement with this name is rejected or gives another tree", wit, map[string]any{"output": clip(y, 300)})
				}
			}
			ast.ReleaseAST(t0)
		}
	}
}

func serFamily(n string) string {
	if i := strings.Index(n, "{"); i > 0 {
		return n[:i]
	}
	return n
}

// c06HostileLists: lists long enough to pass any line width a formatter might wrap at, whose items are literals and quoted
// names containing what a formatter working on rendered text might take for structure: separators, blanks, keywords,
// parentheses, comment openers, statement ends, line breaks
func c06HostileLists() []string {
	hostile := []string{", ", " ,", ",", "  ", " AND ", " FROM ", "(", ")", "((", "--", "/*", "*/", ";", "a, b, c", "x) , (y", ", ''", "\t", " OR 1=1 -- "}
	frames := []string{"SELECT {L} FROM t", "SELECT a FROM t GROUP BY {L}", "SELECT a FROM t ORDER BY {L}", "SELECT f({L}) FROM t", "SELECT a FROM t WHERE x IN ({L})",
		"INSERT INTO t VALUES ({L})", "SELECT a FROM t WHERE b = 1 AND c IN ({L}) AND d = 2 ORDER BY {L}"}
	var out []string
	for hi, h := range hostile {
		lit := "'" + strings.ReplaceAll(h, "'", "''") + "'"
		for fi, fr := range frames {
			var items []string
			for k := 0; k < 9; k++ {
				switch (k + hi + fi) % 4 {
				case 0:
					items = append(items, fmt.Sprintf("column_name_%02d", k))
				case 1:
					items = append(items, lit)
				case 2:
					items = append(items, "first_name || "+lit+" || last_name")
				default:
					items = append(items, fmt.Sprintf("c%d", k))
				}
			}
			out = append(out, strings.ReplaceAll(fr, "{L}", strings.Join(items, ", ")))
		}
	}
	return out
}
