package main

import (
	"context"
	"errors"
	"fmt"
	"strings"
	"time"

	"github.com/ajitpratap0/GoSQLX/pkg/gosqlx"
	"github.com/ajitpratap0/GoSQLX/pkg/sql/ast"
	"github.com/ajitpratap0/GoSQLX/pkg/sql/parser"
	"github.com/ajitpratap0/GoSQLX/pkg/sql/tokenizer"
)

func init() { props["C11"] = runC11 }

// pollCtx: done from the k-th poll on; records how many polls happened after the first done answer
type pollCtx struct {
	context.Context
	k, n      int
	err       error
	afterDone int
	fired     bool
}

func (c *pollCtx) Err() error {
	i := c.n
	c.n++
	if c.k >= 0 && i >= c.k {
		if c.fired {
			c.afterDone++
		}
		c.fired = true
		return c.err
	}
	return nil
}
func (c *pollCtx) Done() <-chan struct{} { return nil }

func runC11(c *runCtx) {
	res := c.res
	res.Rule = "for each input (corpus, generated statements, long inputs with many tokenizer polls) the number n of context polls of the uncancelled run is measured; then for every k in 0..n (all k when n<=48, else 48 spread values including 0,1,n-1,n) and both causes the context turns done at the k-th poll: gosqlx.ParseWithContext, Tokenizer.TokenizeContext and Parser.ParseContextFromModelTokens must return no result and an error matching the cause under errors.Is, poll at most twice more, and leave the parser reusable; k=n and a never-firing context must reproduce the plain result (distinct = distinct (entry, input, k, cause))"
	inputs := append([]string{}, builtinCorpus...)
	inputs = append(inputs,
		"SELECT "+strings.Repeat("a, ", 260)+"a FROM t WHERE x IN (SELECT y FROM u WHERE z = 1)",
		"WITH c AS (SELECT a FROM t WHERE a IN (SELECT CASE WHEN b THEN 1 ELSE 2 END FROM u JOIN v ON u.i = v.i)) SELECT * FROM c UNION SELECT 1 FROM w",
		strings.Repeat("SELECT a FROM t WHERE a = 1; ", 40),
		"SELECT a FROM t WHERE MATCH(a) AGAINST ('x') AND b BETWEEN (SELECT 1) AND (SELECT 2)",
		"SELECT a FROM t LIMIT 5, 10", ";", "SELECT 1;; SELECT 2", "; SELECT 1", "SELECT 1 ;", "SELECT `a` FROM `t` LIMIT 1, 2",
		// comments in every place, and in long runs: trivia is read by a loop of its own
		"-- note\nSELECT a FROM t", "/* a */ SELECT /* b */ 1 /* c */ -- d\n, 2 -- e", "SELECT a -- x\nFROM t -- y\nWHERE b = 1 /* z */",
		strings.Repeat("-- c\n", 250)+"SELECT 1", "SELECT 1 "+strings.Repeat("/* c */ ", 250)+", 2", strings.Repeat("/* a */ -- b\n", 120)+"SELECT a FROM t "+strings.Repeat("-- t\n", 120),
	)
	g := newSQLGen(c.rng.Fork())
	for i := 0; i < c.n(60, 1500); i++ {
		inputs = append(inputs, g.Statement())
	}
	// every word the grammar knows in every position of a few statements (valid or not afterwards): a cancellation
	// seen while standing on any token must surface, whatever production was trying that token
	{
		words := parserWords()
		bases := []string{"INSERT INTO t (a, b) VALUES (1, 2)", "SELECT a FROM t WHERE b = 1 ORDER BY a", "UPDATE t SET a = 1 WHERE b = 2", "SELECT f(a, b) FROM t GROUP BY a",
			"SELECT a FROM t JOIN u ON t.i = u.i LIMIT 5", "DELETE FROM t WHERE a IN (1, 2)", "CREATE TABLE t (a INT DEFAULT 1)", "SELECT CASE WHEN a THEN 1 ELSE 2 END FROM t"}
		for bi, b := range bases {
			pieces := strings.Fields(strings.NewReplacer("(", " ( ", ")", " ) ", ",", " , ").Replace(b))
			for j := range pieces {
				for wi, w := range words {
					if c.quick && (wi+j+bi)%6 != 0 && w != "DEFAULT" && w != "NULL" {
						continue
					}
					mod := append(append(append([]string{}, pieces[:j]...), w), pieces[j+1:]...)
					inputs = append(inputs, strings.Join(mod, " "))
				}
			}
		}
	}
	causes := []error{context.Canceled, context.DeadlineExceeded}
	// promptness: the context is polled at a density that does not thin out as the input grows (the number of polls grows
	// at least in proportion to the tokens read / the statements parsed)
	{
		polls := func(sql string) (tok, prs int) {
			tk, _ := tokenizer.New()
			tc := &pollCtx{Context: context.Background(), k: -1}
			toks, err := tk.TokenizeContext(tc, []byte(sql))
			if err != nil {
				return -1, -1
			}
			pc := &pollCtx{Context: context.Background(), k: -1}
			t, _ := parser.NewParser().ParseContextFromModelTokens(pc, toks)
			if t != nil {
				ast.ReleaseAST(t)
			}
			return tc.n, pc.n
		}
		for _, fam := range []struct {
			name string
			mk   func(n int) string
			unit int // tokens (or statements) per repetition
		}{
			{"select-list", func(n int) string { return "SELECT a" + strings.Repeat(", a", n) + " FROM t" }, 2},
			{"statements", func(n int) string { return strings.Repeat("SELECT a FROM t;\n", n) }, 5},
			{"and-chain", func(n int) string { return "SELECT a FROM t WHERE a = 1" + strings.Repeat(" AND a = 1", n) }, 4},
			{"values-rows", func(n int) string { return "INSERT INTO t (a) VALUES (1)" + strings.Repeat(", (1)", n) }, 4},
		} {
			for _, n := range []int{300, 1500, 6000} {
				t1, p1 := polls(fam.mk(n))
				t2, p2 := polls(fam.mk(4 * n))
				res.count(fmt.Sprintf("poll-density|%s|%d", fam.name, n), true)
				if t1 < 0 || t2 < 0 {
					continue
				}
				moreTokens := 3 * n * fam.unit
				if t2-t1 < moreTokens/400 {
					res.fail("poll-density:tokenizer", fmt.Sprintf("TokenizeContext polls the context %d times for %d repetitions and %d times for %d: the polls thin out as the input grows", t1, n, t2, 4*n),
						map[string]any{"family": fam.name, "n": n}, map[string]any{"polls_n": t1, "polls_4n": t2, "additional_tokens": moreTokens})
				}
				if fam.name == "statements" && p2-p1 < (3*n)/4 {
					res.fail("poll-density:parser", fmt.Sprintf("ParseContext polls the context %d times for %d statements and %d times for %d", p1, n, p2, 4*n),
						map[string]any{"family": fam.name, "n": n}, map[string]any{"polls_n": p1, "polls_4n": p2})
				}
			}
		}
	}
	// a context that is done before the call: every entry point that takes a context refuses with the context's error,
	// whatever the text is — empty, blank, comments only, lexically wrong, over the size limit, or an ordinary statement
	{
		big := make([]byte, tokenizer.MaxInputSize+1)
		for i := range big {
			big[i] = ' '
		}
		copy(big, "SELECT 1")
		texts := [][]byte{nil, {}, []byte(" "), []byte("\n\t \r\n"), []byte("-- c"), []byte("-- c\n"), []byte("/* c */"), []byte("/* a */ -- b\n /* c */ "), []byte("/* open"), []byte(";"),
			[]byte("SELECT 1"), []byte("SELECT 'open"), []byte("SELECT FROM"), []byte("\xff\xfe"), big}
		for ti, text := range texts {
			for _, cause := range causes {
				for mode := 0; mode < 3; mode++ {
					var ctx context.Context
					var stop func()
					switch mode {
					case 0:
						ctx = &pollCtx{Context: context.Background(), k: 0, err: cause}
					case 1:
						if cause == context.Canceled {
							c2, cancel := context.WithCancel(context.Background())
							cancel()
							ctx, stop = c2, func() {}
						} else {
							c2, cancel := context.WithDeadline(context.Background(), time.Now().Add(-time.Second))
							ctx, stop = c2, cancel
						}
					case 2:
						if ti%2 == 1 {
							continue
						}
						ctx = &pollCtx{Context: context.Background(), k: 0, err: cause}
					}
					name := fmt.Sprintf("len=%d %q", len(text), truncate(string(text), 30))
					wit := map[string]any{"text": name, "cause": cause.Error(), "context": []string{"poll-counting", "real", "poll-counting, pooled tokenizer"}[mode]}
					res.count(fmt.Sprintf("done-before|%d|%v|%d", ti, cause, mode), true)
					var tk *tokenizer.Tokenizer
					if mode == 2 {
						tk = tokenizer.GetTokenizer()
					} else {
						tk, _ = tokenizer.New()
					}
					toks, err := tk.TokenizeContext(ctx, text)
					if mode == 2 {
						tokenizer.PutTokenizer(tk)
					}
					if toks != nil || err == nil || !errors.Is(err, cause) {
						res.fail("done-before-call:Tokenizer.TokenizeContext", "the context was done before the call: tokens were returned, or the error is not the context's", wit, fmt.Sprint(err))
					}
					if len(text) <= 1000 {
						if mode == 0 {
							ctx = &pollCtx{Context: context.Background(), k: 0, err: cause}
						}
						tree, perr := gosqlx.ParseWithContext(ctx, string(text))
						if tree != nil || perr == nil || !errors.Is(perr, cause) {
							res.fail("done-before-call:gosqlx.ParseWithContext", "the context was done before the call: a tree was returned, or the error is not the context's", wit, fmt.Sprint(perr))
						}
						plain, _ := tokenizer.New()
						if mt, terr := plain.Tokenize(text); terr == nil {
							if mode == 0 {
								ctx = &pollCtx{Context: context.Background(), k: 0, err: cause}
							}
							tree, perr := parser.NewParser().ParseContextFromModelTokens(ctx, mt)
							if tree != nil || perr == nil || !errors.Is(perr, cause) {
								res.fail("done-before-call:Parser.ParseContextFromModelTokens", "the context was done before the call: a tree was returned, or the error is not the context's", wit, fmt.Sprint(perr))
							}
						}
					}
					if stop != nil {
						stop()
					}
				}
			}
		}
	}
	for ii, sql := range inputs {
		// uncancelled reference
		ref := &pollCtx{Context: context.Background(), k: -1}
		refTree, refErr := gosqlx.ParseWithContext(ref, sql)
		plainTree, plainErr := gosqlx.Parse(sql)
		refDump, plainDump := "", ""
		if refTree != nil {
			refDump = dumpNode(refTree)
		}
		if plainTree != nil {
			plainDump = dumpNode(plainTree)
		}
		res.count("never|"+sql, true)
		if refDump != plainDump || errCode(refErr) != errCode(plainErr) {
			res.fail("never-fires-differs", "a context that never fires does not reproduce the context-free result",
				map[string]any{"sql": sql}, map[string]any{"ctx": errCode(refErr), "plain": errCode(plainErr)})
		}
		n := ref.n
		res.statN("polls_total", n)
		ks := []int{}
		if n <= 48 {
			for k := 0; k <= n; k++ {
				ks = append(ks, k)
			}
		} else {
			seen := map[int]bool{}
			for _, k := range []int{0, 1, 2, 3, n - 2, n - 1, n} {
				if !seen[k] {
					seen[k] = true
					ks = append(ks, k)
				}
			}
			for len(ks) < 48 {
				k := c.rng.Intn(n + 1)
				if !seen[k] {
					seen[k] = true
					ks = append(ks, k)
				}
			}
		}
		if ii < 3 {
			res.sample(map[string]any{"sql": truncate(sql, 100), "polls": n, "ks": len(ks)})
		}
		for _, k := range ks {
			for ci, cause := range causes {
				ctx := &pollCtx{Context: context.Background(), k: k, err: cause}
				tree, err := gosqlx.ParseWithContext(ctx, sql)
				res.count(fmt.Sprintf("pwc|%s|%d|%d", sql, k, ci), true)
				wit := map[string]any{"entry": "gosqlx.ParseWithContext", "sql": sql, "k": k, "cause": cause.Error(), "polls_uncancelled": n}
				if k >= n {
					d := ""
					if tree != nil {
						d = dumpNode(tree)
					}
					if d != refDump || errCode(err) != errCode(refErr) {
						res.fail("late-cancel-changes-result", "a context turning done after the last poll changes the result", wit, errCode(err))
					}
					continue
				}
				if tree != nil {
					res.fail("cancel-returns-tree", "a cancelled call returned a tree", wit, nil)
				}
				if err == nil {
					res.fail("cancel-no-error", "the context turned done at poll k but the call returned no error", wit, nil)
				} else if !errors.Is(err, cause) {
					res.fail("cancel-error-not-is", "the error of a cancelled call does not match the context's error under errors.Is", wit, err.Error())
				}
				if ctx.afterDone > 2 {
					res.fail("cancel-work-after-observation", fmt.Sprintf("%d further polls after the context was observed done", ctx.afterDone), wit, nil)
				}
			}
		}
		// low-level: tokenizer and parser instances stay fit for reuse
		tk, _ := tokenizer.New()
		tref := &pollCtx{Context: context.Background(), k: -1}
		toks, terr := tk.TokenizeContext(tref, []byte(sql))
		for k := 0; k < tref.n && k < 40; k++ {
			cause := causes[k%2]
			ctx := &pollCtx{Context: context.Background(), k: k, err: cause}
			got, err := tk.TokenizeContext(ctx, []byte(sql))
			res.count(fmt.Sprintf("tok|%s|%d", sql, k), true)
			wit := map[string]any{"entry": "Tokenizer.TokenizeContext", "sql": sql, "k": k, "cause": cause.Error()}
			if got != nil || err == nil || !errors.Is(err, cause) {
				res.fail("tokenizer-cancel", "TokenizeContext did not report the cancellation as such", wit, fmt.Sprint(err))
			}
			// the same instance afterwards: through both entry points, directly, after Reset, and after a trip through the pool
			again, aerr := tk.Tokenize([]byte(sql))
			if fmtToks(again) != fmtToks(toks) || errCode(aerr) != errCode(terr) {
				res.fail("tokenizer-not-reusable-after-cancel", "a tokenizer used by a cancelled call tokenizes differently afterwards", wit, nil)
			}
			for step, prep := range []func(){func() {}, func() { tk.Reset() }} {
				prep()
				again2, aerr2 := tk.TokenizeContext(context.Background(), []byte(sql))
				if fmtToks(again2) != fmtToks(toks) || errCode(aerr2) != errCode(terr) || (aerr2 != nil && (errors.Is(aerr2, context.Canceled) || errors.Is(aerr2, context.DeadlineExceeded))) {
					res.fail("tokenizer-not-reusable-after-cancel", "a tokenizer used by a cancelled call answers a later TokenizeContext with a live context differently (directly / after Reset)", wit,
						map[string]any{"after_reset": step == 1, "error": fmt.Sprint(aerr2)})
					break
				}
			}
		}
		// … and a pooled tokenizer that saw a cancellation is as good as new for the next borrower
		if tref.n > 0 {
			k := ii % tref.n
			ptk := tokenizer.GetTokenizer()
			_, _ = ptk.TokenizeContext(&pollCtx{Context: context.Background(), k: k, err: context.Canceled}, []byte(sql))
			tokenizer.PutTokenizer(ptk)
			for d := 0; d < 3; d++ {
				b := tokenizer.GetTokenizer()
				again, aerr := b.TokenizeContext(context.Background(), []byte(sql))
				if fmtToks(again) != fmtToks(toks) || errCode(aerr) != errCode(terr) {
					res.fail("tokenizer-not-reusable-after-cancel", "a pooled tokenizer that saw a cancellation answers the next borrower differently",
						map[string]any{"entry": "tokenizer.GetTokenizer / TokenizeContext", "sql": sql, "k": k}, fmt.Sprint(aerr))
					break
				}
				defer tokenizer.PutTokenizer(b)
			}
		}
		if terr != nil {
			continue
		}
		// a context that never fires = the context-free call, whatever the parser's configuration
		for oi, opts := range [][]parser.ParserOption{nil, {parser.WithStrictMode()}, {parser.WithDialect("mysql")}, {parser.WithStrictMode(), parser.WithDialect("mysql")}, {parser.WithDialect("postgresql")}} {
			pa, pb := parser.NewParser(opts...), parser.NewParser(opts...)
			ta, ea := pa.ParseFromModelTokens(toks)
			tb, eb := pb.ParseContextFromModelTokens(&pollCtx{Context: context.Background(), k: -1}, toks)
			da, db := "", ""
			if ta != nil {
				da = dumpNode(ta)
				ast.ReleaseAST(ta)
			}
			if tb != nil {
				db = dumpNode(tb)
				ast.ReleaseAST(tb)
			}
			res.count(fmt.Sprintf("cfg|%s|%d", sql, oi), true)
			if da != db || errCode(ea) != errCode(eb) {
				res.fail("never-fires-differs:configured-parser", "with a parser configured by options, a context that never fires does not reproduce the context-free result",
					map[string]any{"sql": sql, "options": oi}, map[string]any{"ctx": errCode(eb), "plain": errCode(ea)})
			}
		}
		p := parser.NewParser()
		pref := &pollCtx{Context: context.Background(), k: -1}
		rt, rerr := p.ParseContextFromModelTokens(pref, toks)
		rdump := ""
		if rt != nil {
			rdump = dumpNode(rt)
			ast.ReleaseAST(rt)
		}
		for k := 0; k < pref.n; k++ {
			if pref.n > 24 && k > 8 && k < pref.n-8 {
				continue
			}
			ctx := &pollCtx{Context: context.Background(), k: k, err: context.DeadlineExceeded}
			tree, err := p.ParseContextFromModelTokens(ctx, toks)
			res.count(fmt.Sprintf("pc|%s|%d", sql, k), true)
			wit := map[string]any{"entry": "Parser.ParseContextFromModelTokens", "sql": sql, "k": k}
			if tree != nil || err == nil || !errors.Is(err, context.DeadlineExceeded) {
				res.fail("parser-cancel", "ParseContext did not report the cancellation as such", wit, fmt.Sprint(err))
			}
			if p.VerifDepth() != 0 {
				res.fail("parser-depth-after-cancel", fmt.Sprintf("depth counter is %d after a cancelled call", p.VerifDepth()), wit, nil)
			}
			t2, e2 := p.ParseFromModelTokens(toks)
			d2 := ""
			if t2 != nil {
				d2 = dumpNode(t2)
				ast.ReleaseAST(t2)
			}
			if d2 != rdump || errCode(e2) != errCode(rerr) {
				res.fail("parser-not-reusable-after-cancel", "a parser used by a cancelled call parses differently afterwards", wit,
					map[string]any{"after": errCode(e2), "reference": errCode(rerr)})
			}
		}
	}
}
